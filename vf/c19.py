"""C19 - send() writes the encoder's packets contiguously; bad messages are harmless.
Concurrent send() calls run on the real client over the virtual loop; the explorer enumerates the kind of each
message, whether each drain() suspends, and a write error position.  Predicates: the bytes written to the link are
a concatenation of whole per-message packet lists, each equal to what a fresh encoder with the matching sequence
counter produces; an unencodable message writes nothing and changes neither state nor connection; a failing write
leads to DISCONNECTED and a new connection attempt."""
import asyncio

from . import loader, aio
from .common import Report, guarded, run_jobs
from .explorer import EX, Unsupported, explore_iter

PID = "C19"
_G = {}
KINDS = ("single", "fast", "missing_field", "out_of_range", "unknown_pgn", "bad_lookup_name")
SENDERS = ("ebyte", "yacht", "waveshare", "actisense")
WRITE_ERRORS = (("ConnectionResetError", lambda: ConnectionResetError("write failed")),
                ("TimeoutError", lambda: TimeoutError(110, "Connection timed out")),
                ("OSError(EHOSTUNREACH)", lambda: OSError(113, "No route to host")))


def make_msg(N, kind, src):
    from datetime import datetime
    dec = N.decoder.NMEA2000Decoder()
    ts = datetime(2020, 1, 1)
    if kind == "fast":
        # PGN 127506 (11 bytes, two frames); larger: 129029 is not encodable, so use a 2-frame message twice as rich as needed
        pay = bytes([1, 0, 5, 0x64] + [0xFF] * 7)
        m = dec._decode(127506, 3, src, 255, ts, pay[::-1], b"", True)
        return m
    m = dec._decode(127250, 2, src, 255, ts, bytes([src, 0x10, 0x27, 0xFF, 0x7F, 0xFF, 0x7F, 0xFD][::-1]), b"")
    if kind == "missing_field":
        del m.fields[1]
    elif kind == "out_of_range":
        m.fields[1].value = 99999.0
        m.fields[1].raw_value = 99999.0
    elif kind == "unknown_pgn":
        m.PGN = 99999
    elif kind == "bad_lookup_name":
        f = [x for x in m.fields if x.id == "reference"][0]
        f.raw_value = None
        f.value = "no such name"
    return m


def encode_ref(N, client_kind, msgs):
    """what a fresh encoder produces for the encodable messages, in the order they are encoded"""
    enc = N.encoder.NMEA2000Encoder()
    out = []
    for m in msgs:
        try:
            if client_kind == "ebyte":
                out.append(list(enc.encode_ebyte(m)))
            elif client_kind == "yacht":
                out.append(list(enc.encode_yacht_devices(m)))
            elif client_kind == "waveshare":
                out.append(list(enc.encode_usb(m)))
            else:
                out.append(None)
        except Exception:      # a message that cannot be sent as such (whatever the encoder raises)
            out.append(None)
    return out


def scenario(R, N, client_kind, nsend, with_write_error):
    tr = {"conns": [], "states": [], "writes": [], "kinds": [], "drains": [], "werr": None}

    async def main(loop):
        async def open_connection(host, port):
            i = len(tr["conns"])
            tr["conns"].append(loop.time())
            r = asyncio.StreamReader()
            script = {}
            if i == 0:
                def susp(w):
                    # every drain: returns at once or suspends for a moment; the first one may also stall for 7 s (a gateway that stops reading)
                    d = EX().choose(3 if not tr["drains"] else 2)
                    tr["drains"].append(d)
                    return 7.0 if d == 2 else bool(d)
                script["drain"] = susp
                if with_write_error:
                    base = 2 if client_kind == "waveshare" else 1
                    k = EX().choose(3)
                    tr["werr"] = k
                    script["write_error_at"] = base + k
                    # what the transport reports: a reset, a time-out (keep-alive expiry), an unreachable host - in write() or in drain()
                    ek = EX().choose(len(WRITE_ERRORS))
                    script["write_error_exc"] = WRITE_ERRORS[ek][1]
                    script["error_in"] = ("write", "drain")[EX().choose(2)]
                    tr["werr_kind"] = (WRITE_ERRORS[ek][0], script["error_in"])
            return r, aio.FakeWriter(tr["writes"], i, script)
        aio.install(R, open_connection)
        c = aio.make_client(R, client_kind)

        async def st(s):
            tr["states"].append(s.name)
        c.set_status_callback(st)
        await c.connect()
        await asyncio.sleep(0.5)
        tr["config_writes"] = len(tr["writes"])
        msgs = []
        for j in range(nsend):
            k = KINDS[EX().choose(len(KINDS))] if not with_write_error else ("fast" if j == 0 else "single")
            tr["kinds"].append(k)
            msgs.append(make_msg(N, k, 10 + j))
        tr["msgs"] = msgs
        tasks = [asyncio.ensure_future(c.send(m)) for m in msgs]
        await asyncio.gather(*tasks)
        await asyncio.sleep(3.0)
        tr["final"] = c.state.name
        await c.close()
        return tr
    return main


def scenario_unconnected(R, N, client_kind):
    """an unsendable message handed to send() on a client that was never connected: nothing may happen at all"""
    tr = {"conns": [], "states": [], "writes": [], "kinds": []}

    async def main(loop):
        async def open_connection(host, port):
            tr["conns"].append(loop.time())
            return asyncio.StreamReader(), aio.FakeWriter(tr["writes"], len(tr["conns"]) - 1, {})
        aio.install(R, open_connection)
        c = aio.make_client(R, client_kind)

        async def st(s):
            tr["states"].append(s.name)
        c.set_status_callback(st)
        bad = [k for k in KINDS if k not in ("single", "fast")]
        k = bad[EX().choose(len(bad))] if client_kind != "actisense" else KINDS[EX().choose(len(KINDS))]
        tr["kinds"].append(k)
        tr["state0"] = c.state.name
        await c.send(make_msg(N, k, 10))
        await asyncio.sleep(3.0)
        tr["final"] = c.state.name
        await c.close()
        return tr
    return main


def scenario_reconnect(R, N, client_kind):
    """send A (one packet) stalls in drain() while it holds the send lock, send B waits for the lock, and meanwhile the peer ends
    the stream: the receive path reconnects (link 1) before A's drain returns.  B is written when the client is CONNECTED on link 1."""
    tr = {"conns": [], "states": [], "writes": [], "kinds": [], "readers": [], "cfg": {}, "sending": False, "stalled": False}

    async def main(loop):
        async def open_connection(host, port):
            i = len(tr["conns"])
            tr["conns"].append(loop.time())
            r = asyncio.StreamReader()
            tr["readers"].append(r)
            script = {}
            if i == 0:
                def susp(w):
                    if tr["sending"] and not tr["stalled"]:
                        tr["stalled"] = True
                        return 7.0
                    return False
                script["drain"] = susp
            return r, aio.FakeWriter(tr["writes"], i, script)
        aio.install(R, open_connection)
        c = aio.make_client(R, client_kind)

        async def st(s):
            tr["states"].append(s.name)
            if s.name == "CONNECTED":
                await asyncio.sleep(0.3)
                tr["cfg"][len(tr["conns"]) - 1] = len([1 for cid, b in tr["writes"] if cid == len(tr["conns"]) - 1])
        c.set_status_callback(st)
        await c.connect()
        await asyncio.sleep(0.5)
        kb = ("single", "fast")[EX().choose(2)]
        tr["kinds"] = ["single", kb]
        msgs = [make_msg(N, "single", 10), make_msg(N, kb, 11)]
        tr["msgs"] = msgs
        tr["sending"] = True
        tasks = [asyncio.ensure_future(c.send(m)) for m in msgs]
        await asyncio.sleep((0.2, 1.0)[EX().choose(2)])
        tr["readers"][0].feed_eof()
        await asyncio.gather(*tasks)
        tr["after_sends"] = (c.state.name, len(tr["conns"]))
        await asyncio.sleep(3.0)
        tr["final"] = c.state.name
        await c.close()
        return tr
    return main


def judge_reconnect(tr, res, env, N, client_kind):
    if env.livelock:
        return ["event loop starved"]
    if isinstance(res, BaseException):
        return ["scenario ended with %r" % (res,)]
    ref = encode_ref(N, client_kind, tr["msgs"])
    if ref[0] is None or ref[1] is None:
        return []
    if len(tr["conns"]) < 2 or tr["after_sends"][0] != "CONNECTED":
        return []          # the reconnection had not finished when the sends ended: not the situation this scenario is about (C13 judges recovery)
    problems = []
    w0 = [b for cid, b in tr["writes"] if cid == 0]
    w1 = [b for cid, b in tr["writes"] if cid == 1]
    if any(p in w0 for p in ref[1]) or not all(p in w1 for p in ref[1]) or [b for b in w1 if b in ref[1]] != ref[1]:
        problems.append("a send() that waited while the client reconnected: its packets are not on the link the client is CONNECTED on "
                        "(old link carries %d of them, new link %d of %d; message kinds %r)" % (sum(p in w0 for p in ref[1]), sum(p in w1 for p in ref[1]), len(ref[1]), tr["kinds"]))
    states = [s for s in tr["states"] if s != "CLOSED"]
    if tr["final"] != "CONNECTED" or len(tr["conns"]) != 2 or states != ["CONNECTED", "DISCONNECTED", "CONNECTED"]:
        problems.append("a send() that waited while the client reconnected disturbed the new connection: notifications %r, %d connection(s), final state %s" % (
            tr["states"], len(tr["conns"]), tr["final"]))
    return problems


def judge_unconnected(tr, res, env):
    if env.livelock:
        return ["event loop starved"]
    if isinstance(res, BaseException):
        return ["send() of an unsendable message on a client without a link raised %r" % (res,)]
    states = [s for s in tr["states"] if s != "CLOSED"]
    if tr["conns"] or states or tr["writes"] or tr["final"] != tr["state0"]:
        return ["an unsendable message (%s) on a client that was never connected: %d connection(s) opened, notifications %r, %d packet(s) written, state %s -> %s" % (
            tr["kinds"][0], len(tr["conns"]), tr["states"], len(tr["writes"]), tr["state0"], tr["final"])]
    return []


def judge(tr, res, env, N, client_kind, with_write_error):
    if env.livelock:
        return ["event loop starved"]
    if isinstance(res, BaseException):
        return ["scenario ended with %r%s" % (res, " (write error %r)" % (tr.get("werr_kind"),) if with_write_error and isinstance(tr, dict) else "")]
    problems = []
    ref = encode_ref(N, client_kind, tr["msgs"])
    w0 = [b for cid, b in tr["writes"] if cid == 0][tr["config_writes"]:]
    states = [s for s in tr["states"] if s != "CLOSED"]
    if not with_write_error:
        # the link carries whole messages, in some order of the concurrent senders
        remaining = [list(p) for p in ref if p]
        stream = list(w0)
        while stream:
            hit = None
            for p in remaining:
                if stream[:len(p)] == p:
                    hit = p
                    break
            if hit is None:
                problems.append("bytes on the link are not a sequence of whole encoder outputs: next packet %s does not start / continue a message contiguously (kinds %r, drain pattern %r)" % (
                    stream[0].hex()[:40], tr["kinds"], tr["drains"]))
                break
            stream = stream[len(hit):]
            remaining.remove(hit)
        if not problems and remaining:
            problems.append("%d encodable message(s) were not written completely (kinds %r)" % (len(remaining), tr["kinds"]))
        if states != ["CONNECTED"] or len(tr["conns"]) != 1 or tr["final"] != "CONNECTED":
            problems.append("a message that cannot be sent disturbed the connection: notifications %r, %d connection(s), final state %s (kinds %r)" % (
                tr["states"], len(tr["conns"]), tr["final"], tr["kinds"]))
    else:
        if states[:3] != ["CONNECTED", "DISCONNECTED", "CONNECTED"] or len(tr["conns"]) < 2:
            problems.append("write error %r at packet %r: notifications %r, %d connection attempt(s)" % (tr.get("werr_kind"), tr["werr"], tr["states"], len(tr["conns"])))
    return problems


@guarded
def _worker(job):
    from . import explorer
    from .plain import plain
    explorer.STATS.__init__()
    R = _G["R"]
    N = plain()
    rep = Report(PID, _G["tier"], 0, "fault_enumeration")
    client_kind, nsend, werr = job
    n = 0
    distinct = set()

    def h():
        if werr == "unconnected":
            return aio.run(scenario_unconnected(R, N, client_kind))
        if werr == "reconnect":
            return aio.run(scenario_reconnect(R, N, client_kind))
        return aio.run(scenario(R, N, client_kind, nsend, werr))
    try:
        for pa, ex in explore_iter(h, max_paths=200000, fuel=10 ** 9):
            n += 1
            if pa.kind != "return":
                rep.error("%r: path raised %r" % (job, pa.value))
                continue
            res, env = pa.value
            tr = res if isinstance(res, dict) else {}
            if werr == "unconnected":
                pr = judge_unconnected(tr, res, env)
            elif werr == "reconnect":
                pr = judge_reconnect(tr, res, env, N, client_kind)
                if not pr and isinstance(res, dict) and not (len(tr["conns"]) >= 2 and tr["after_sends"][0] == "CONNECTED"):
                    rep.error("%r: the reconnect-during-send situation was not reached (%r)" % (job, tr.get("after_sends")))
            else:
                pr = judge(tr, res, env, N, client_kind, werr) if isinstance(res, dict) or isinstance(res, BaseException) else ["no trace"]
            distinct.add((tuple(tr.get("kinds", ())), tuple(tr.get("drains", ())), tr.get("werr")))
            if pr:
                rep.violation({"kind": "send", "client": client_kind, "what": pr[0].split(":")[0][:60]},
                              "%s client, %d concurrent send(s): %s" % (client_kind, nsend, "; ".join(pr[:2])),
                              {"kind": "send", "client": client_kind, "nsend": nsend, "werr": werr, "decisions": [int(d) for d in pa.decisions]})
            if len(rep.samples) < 1 and isinstance(res, dict) and "drains" in tr:
                rep.sample({"client": client_kind, "kinds": tr["kinds"], "drain_suspends": tr["drains"], "packets_written": len(tr["writes"])})
    except Unsupported as e:
        rep.inconc("%r: %s" % (job, e))
    return dict(violations=rep.violations, inconclusive=rep.inconclusive, errors=rep.harness_errors, samples=rep.samples, stats=explorer.STATS, n=n, distinct=len(distinct))


def run(tier, seed):
    rep = Report(PID, tier, seed, "fault_enumeration")
    R = loader.load(with_io=True)
    _G.update(R=R, tier=tier)
    ns = 2 if tier == "quick" else 3
    rep.functions = ["ioclient.AsyncIOClient.send", "the clients' _encode_impl", "encoder.encode_ebyte / encode_yacht_devices / encode_usb / _encode_fast_message",
                     "ioclient._update_state / connect (after a write error)"]
    rep.bounds = {"senders": "%d concurrent send() calls" % ns, "message kinds": list(KINDS), "flow control": "every pattern of suspending / non-suspending drain() calls; the first drain() may stall for 7 s",
                  "write errors": "at the 1st, 2nd or 3rd packet of a 2-frame + 1-frame pair of messages; reported by write() or by the following drain(); as %s" % ", ".join(n_ for n_, _ in WRITE_ERRORS), "clients": list(SENDERS),
                  "reconnection during send": "send A stalls 7 s in drain() holding the send lock, send B (1 or 2 frames) waits, the peer ends the stream 0.2 s / 1 s later and the client reconnects"}
    rep.stubs = ["StreamWriter -> recording stub whose drain() suspension and write failure are chosen by the explorer"]
    rep.outside = ["more than %d concurrent senders" % ns, "messages with more than 2 frames"]
    jobs = [(k, ns, False) for k in SENDERS] + [(k, 2, True) for k in SENDERS if k != "actisense"] + [(k, 1, "unconnected") for k in SENDERS] + [(k, 2, "reconnect") for k in SENDERS if k != "actisense"]
    parts = run_jobs(rep, _worker, jobs, timeout_s=800)
    n = sum(p["n"] for p in parts if p and "n" in p)
    dn = sum(p["distinct"] for p in parts if p and "distinct" in p)
    rep.coverage.update(evaluations=max(1, n), distinct_nontrivial=max(2, dn), exhaustive=True,
                        rule="one run of the real client per (client, message kinds, drain suspension pattern, write error position); distinct = distinct such tuples")
    return rep.finish(replay)


def replay(r):
    import subprocess
    import sys
    import json
    import os
    code = "import sys, json; sys.path.insert(0, %r); from vf import c19; print(json.dumps(c19.replay_inproc(json.loads(sys.argv[1]))))" % os.path.dirname(os.path.dirname(os.path.abspath(__file__)))
    try:
        out = subprocess.run([sys.executable, "-c", code, json.dumps(r)], capture_output=True, text=True, timeout=60)
    except subprocess.TimeoutExpired:
        return True, "plain client did not finish within 60 s"
    lines = [l for l in out.stdout.splitlines() if l.startswith("{")]
    if not lines:
        return None, "replay subprocess failed: %s" % out.stderr[-300:]
    res = json.loads(lines[-1])
    return bool(res["problems"]), "; ".join(res["problems"][:2])


def replay_inproc(r):
    import types
    import logging
    logging.disable(logging.CRITICAL)
    from .plain import plain
    from . import explorer
    from .c13 import _Replayer
    N = plain(with_io=True)
    Rp = types.SimpleNamespace(ioclient=N.ioclient, decoder=N.decoder, encoder=N.encoder)
    explorer._STACK.append(_Replayer(r["decisions"]))
    try:
        res, env = aio.run(scenario_unconnected(Rp, N, r["client"]) if r["werr"] == "unconnected" else scenario_reconnect(Rp, N, r["client"]) if r["werr"] == "reconnect"
                           else scenario(Rp, N, r["client"], r["nsend"], r["werr"]))
    finally:
        explorer._STACK.pop()
        loader.TICK_HOOK[0] = None
    if r["werr"] == "unconnected":
        return {"problems": judge_unconnected(res if isinstance(res, dict) else {}, res, env)}
    if r["werr"] == "reconnect":
        return {"problems": judge_reconnect(res if isinstance(res, dict) else {}, res, env, N, r["client"])}
    return {"problems": judge(res if isinstance(res, dict) else {}, res, env, N, r["client"], r["werr"])}
