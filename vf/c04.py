"""C04 - fast-packet reassembly is exact under interleaving, reordering, duplication and loss.
(B) structured histories on one stream X: consecutive messages with symbolic payload bytes, symbolic padding and
    symbolic (pairwise-consecutive-distinct) sequence counters; the explorer enumerates, per message, loss of the
    first frame and every sequence (with repetition) of its other frames up to a bound; a second stream Y is
    interleaved frame by frame.  Oracle from the property text: a message is delivered exactly when its last
    missing frame arrives, with exactly the announced bytes, never again; Y is never disturbed.
(S) symbolic stream identities: two streams whose (PGN, source, destination) are symbolic and differ in at least
    one component, frames interleaved: both messages are delivered intact (stream key injectivity)."""
import os
from datetime import datetime
import z3

from . import loader
from .common import Report, guarded, merge_part
from .db import db
from .explorer import explore, prove, satisfiable, Unsupported, EX
from .proxies import SymInt, SymBytes, truth
from .c03 import pick_fast_pgns

PID = "C04"
_G = {}
TS = datetime(2020, 1, 1)


def make_frames(name, n, seq):
    """frames (as the decoder receives them: reversed CAN data) of one message: symbolic payload, symbolic padding"""
    pay = [SymInt.var("%s_b%d" % (name, i), 8) for i in range(n)]
    frames = []
    pos = 0
    idx = 0
    while True:
        hdr = (seq << 5) | idx
        if idx == 0:
            body = pay[pos:pos + 6]
            pos += len(body)
            fr = [hdr, n] + body
        else:
            body = pay[pos:pos + 7]
            pos += len(body)
            fr = [hdr] + body
        pad = [SymInt.var("%s_pad%d_%d" % (name, idx, j), 8) for j in range(8 - len(fr))]
        frames.append(SymBytes((fr + pad)[::-1]))
        idx += 1
        if pos >= n:
            break
    return pay, frames


@guarded
def _b_worker(job):
    from . import explorer
    explorer.STATS.__init__()
    R = _G["R"]
    pgnX = _G["pgns"][0]
    rep = Report(PID, _G["tier"], 0, "model_checking")
    first_choice, sizes, maxpicks = job[:3]
    ypattern = job[3] if len(job) > 3 else "every"       # when a frame of stream Y follows an X frame: every / odd / even X feed
    counters = job[4] if len(job) > 4 else "pairwise"    # "consecutive": only neighbouring messages carry different counters
    stray = len(job) > 5 and job[5] == "stray"           # late / duplicated frames of the PREVIOUS message between the frames of this one
    cs = [z3.BitVec("c%d" % i, 3) for i in range(len(sizes) + 1)]
    if counters == "consecutive":
        # what the property assumes and no more: consecutive messages differ; the first frame of every message arrives (the
        # property's losses concern the frames that follow a first frame), so "consecutive as sent" is "consecutive as received"
        assume = [cs[i] != cs[i + 1] for i in range(len(cs) - 1)]
    else:
        assume = [cs[i] != cs[j] for i in range(len(cs)) for j in range(i + 1, len(cs))]
    msgs = [make_frames("m%d" % i, n, SymInt(z3.ZeroExt(1, cs[i]), 3)) for i, n in enumerate(sizes)]
    final = make_frames("fin", 9, SymInt(z3.ZeroExt(1, cs[len(sizes)]), 3))   # always sent intact at the end
    ypay, yframes = make_frames("y", 13, 5)
    states = [0]
    trans = [0]

    def h():
        ex = EX()
        dec = R.decoder.NMEA2000Decoder()
        calls = []
        dec._call_decode_function = lambda pgn_, pr_, s_, d_, ts_, data, iso, raw: calls.append((s_, data)) or ("MSG", len(calls))
        events = []       # (kind, msg index, frame index, returned, ncalls_after)
        ycount = [0]
        xcount = [0]

        def feed_x(fr):
            r = dec._decode(pgnX, 3, 7, 255, TS, fr, b"")
            # interleave one frame of stream Y (other source address) after every / every other X frame
            nx = xcount[0]
            xcount[0] += 1
            if ypattern == "every" or (ypattern == "odd" and nx % 2 == 1) or (ypattern == "even" and nx % 2 == 0):
                k = ycount[0] % len(yframes)
                ycount[0] += 1
                ry = dec._decode(pgnX, 3, 9, 255, TS, yframes[k], b"")
                trans[0] += 2
                return r, ry, k
            trans[0] += 1
            return r, None, None
        script = []
        for i, (pay, frames) in enumerate(msgs):
            if i == 0:
                lost = first_choice
            elif counters == "consecutive":
                lost = 0
            else:
                lost = ex.choose(2)
            seen = set()
            if not lost:
                r, ry, k = feed_x(frames[0])
                seen.add(0)
                events.append(("x", i, 0, r, len(calls), set(seen), ry, k))
            npicks = ex.choose(maxpicks + 1)
            for _ in range(npicks):
                if len(frames) < 2:
                    break
                prev = msgs[i - 1][1] if (stray and i >= 1 and not lost) else []
                j = 1 + ex.choose(len(frames) - 1 + max(0, len(prev) - 1))   # any frame that follows the first frame, again and again (dup / reorder / omit)
                if j >= len(frames):
                    # a straggler of the previous message (another sequence counter): it must be ignored and must not disturb message i
                    js = j - len(frames) + 1
                    r, ry, k = feed_x(prev[js])
                    events.append(("s", i - 1, js, r, len(calls), None, ry, k))
                    continue
                r, ry, k = feed_x(frames[j])
                seen.add(j)
                events.append(("x", i, j, r, len(calls), set(seen), ry, k))
        for j, fr in enumerate(final[1]):
            r, ry, k = feed_x(fr)
            events.append(("f", len(msgs), j, r, len(calls), None, ry, k))
        states[0] += 1
        return events, calls

    def loader_abort():
        from .explorer import PathAbort
        return PathAbort("first frame lost: it cannot be picked")
    try:
        paths, ex = explore(h, max_paths=200000, assumptions=assume)
    except Unsupported as e:
        rep.inconc("B%r: %s" % (job, e))
        return dict(violations=[], inconclusive=rep.inconclusive, errors=[], samples=[], stats=explorer.STATS, states=0, trans=0)
    nsamples = 0
    for pa in paths:
        if pa.kind != "return":
            st0, m0 = satisfiable(z3.And(pa.cond(), *assume))
            if st0 == "sat":
                rep.violation({"kind": "history-raises"}, "decoder raised %r" % (pa.value,), wit(m0, pa, job, cs, msgs, final, ypay))
            continue
        events, calls = pa.value
        claims = []
        problem = None
        delivered = {}          # msg index -> call index
        ycalls = 0
        xcalls = 0
        done = set()
        expect_calls = 0
        for (kind, i, j, r, ncalls, seen, ry, k) in events:
            pay, frames = final if kind == "f" else msgs[i]
            complete_now = False
            if kind == "x":
                complete_now = (i not in done) and len(seen) == len(frames)
            elif kind == "s":
                complete_now = False
            else:
                complete_now = j == len(frames) - 1
            if complete_now:
                done.add(i)
                expect_calls += 1
                if r is None or r[0] != "MSG":
                    problem = "message %d complete at this frame but nothing returned" % i
                    break
                idx = r[1] - 1
                got = calls[idx][1]
                if calls[idx][0] != 7 or len(got) != len(pay):
                    problem = "message %d delivered with %d bytes, announced %d" % (i, len(got), len(pay))
                    break
                for q in range(len(pay)):
                    claims.append(truth(SymInt.lift(got[len(pay) - 1 - q]) == pay[q]))
            else:
                if r is not None:
                    problem = "frame %d of message %d produced a delivery although the message was not completed by it" % (j, i)
                    break
            # stream Y: delivered at every 2nd frame, intact
            if k is None:
                pass
            elif k == len(yframes) - 1:
                expect_calls += 1
                if ry is None:
                    problem = "stream Y message not delivered"
                    break
                goty = calls[ry[1] - 1]
                if goty[0] != 9 or len(goty[1]) != len(ypay):
                    problem = "stream Y delivered %d bytes" % len(goty[1])
                    break
                for q in range(len(ypay)):
                    claims.append(truth(SymInt.lift(goty[1][len(ypay) - 1 - q]) == ypay[q]))
            elif ry is not None:
                problem = "stream Y delivered early"
                break
        if problem is None and len(calls) != expect_calls:
            problem = "%d deliveries, expected %d" % (len(calls), expect_calls)
        if problem is not None:
            st0, m0 = satisfiable(z3.And(pa.cond(), *assume))
            if st0 == "sat":
                rep.violation({"kind": "history-delivery", "what": problem.split(" ")[0]}, problem, wit(m0, pa, job, cs, msgs, final, ypay, events, yframes))
            continue
        st, m = prove(z3.And(*claims) if claims else z3.BoolVal(True), assume + pa.pc, label="B-content")
        if st == "sat":
            rep.violation({"kind": "history-content"}, "a delivered payload differs from the bytes sent (mixing / padding leak)",
                          wit(m, pa, job, cs, msgs, final, ypay, events, yframes))
        elif st == "unknown":
            rep.inconc("B content undecided")
        if nsamples < 1:
            nsamples += 1
            rep.sample({"history": [(e[0], e[1], e[2], e[3] is not None) for e in events], "job": job})
    return dict(violations=rep.violations, inconclusive=rep.inconclusive, errors=rep.harness_errors, samples=rep.samples,
                stats=explorer.STATS, states=len(paths), trans=trans[0])


def _completes(events, i, j, ev):
    """the frame completes message i iff it is the first time all frames have been seen"""
    seen_before = set()
    for e in events:
        if e is ev:
            break
        if e[0] == "x" and e[1] == i:
            seen_before.add(e[2])
    nframes = None
    return j not in seen_before


def wit(m, pa, job, cs, msgs, final, ypay, events=None, yfr=None):
    def val(x):
        return m.eval(x.t if isinstance(x, SymInt) else x, True).as_long() & 0xFF if m is not None else 0
    fr = []
    if events is not None:
        for e in events:
            pay, frames = final if e[0] == "f" else msgs[e[1]]
            fr.append(("X", bytes(val(SymInt.lift(b)) for b in frames[e[2]].items).hex()))
            if e[7] is not None and yfr is not None:
                fr.append(("Y", bytes(val(SymInt.lift(b)) for b in yfr[e[7]].items).hex()))
    return {"kind": "history", "frames": fr, "decisions": [int(d) for d in pa.decisions], "job": list(job),
            "counters": [m.eval(c, True).as_long() if m is not None else 0 for c in cs]}


@guarded
def _wrap_worker(n0):
    """(W) counter wrap-around: a message that lost a frame (only its first frame arrives, counter c), then eight intact messages
    with the counters c+1 ... c+8 (mod 8) as a sender produces them - the last one carries c again.  Every intact message is
    delivered at its last frame with its own bytes; nothing of the abandoned message survives (seeded C03-i)."""
    from . import explorer
    explorer.STATS.__init__()
    R = _G["R"]
    pgnX = _G["pgns"][0]
    rep = Report(PID, _G["tier"], 0, "model_checking")
    c0 = z3.BitVec("c0", 3)
    msgs = [make_frames("w%d" % i, n0 if i == 0 else 13, SymInt(z3.ZeroExt(1, c0 + i), 3)) for i in range(9)]
    trans = [0]

    def h():
        dec = R.decoder.NMEA2000Decoder()
        calls = []
        dec._call_decode_function = lambda pgn_, pr_, s_, d_, ts_, data, iso, raw: calls.append((s_, data)) or ("MSG", len(calls))
        events = [("x", 0, 0, dec._decode(pgnX, 3, 7, 255, TS, msgs[0][1][0], b""), 0, None, None, None)]
        for i in range(1, 9):
            for j, fr in enumerate(msgs[i][1]):
                events.append(("x", i, j, dec._decode(pgnX, 3, 7, 255, TS, fr, b""), len(calls), None, None, None))
                trans[0] += 1
        return events, calls
    try:
        paths, ex = explore(h, max_paths=4096)
    except Unsupported as e:
        rep.inconc("W: %s" % e)
        return dict(violations=[], inconclusive=rep.inconclusive, errors=[], samples=[], stats=explorer.STATS, states=0, trans=0)
    job = ("wrap", n0)
    for pa in paths:
        st0, m0 = satisfiable(pa.cond())
        if st0 != "sat":
            continue
        if pa.kind != "return":
            rep.violation({"kind": "wrap-raises"}, "decoder raised %r" % (pa.value,), wit(m0, pa, job, [c0], msgs, msgs[0], None))
            continue
        events, calls = pa.value
        problem = None
        claims = []
        for (kind, i, j, r, ncalls, _a, _b, _c) in events:
            last = i >= 1 and j == len(msgs[i][1]) - 1
            if not last:
                if r is not None:
                    problem = "frame %d of message %d produced a delivery" % (j, i)
                    break
                continue
            if r is None or r[0] != "MSG":
                problem = "message %d (counter c+%d) complete at this frame but nothing returned" % (i, i)
                break
            got = calls[r[1] - 1][1]
            pay = msgs[i][0]
            if len(got) != len(pay):
                problem = "message %d delivered with %d bytes, announced %d" % (i, len(got), len(pay))
                break
            for q in range(len(pay)):
                claims.append(truth(SymInt.lift(got[len(pay) - 1 - q]) == pay[q]))
        if problem is None and len(calls) != 8:
            problem = "%d deliveries, expected 8" % len(calls)
        if problem is not None:
            rep.violation({"kind": "wrap-delivery", "what": problem.split(" ")[0]}, "after an abandoned message and a full turn of the sequence counter: " + problem,
                          wit(m0, pa, job, [c0], msgs, msgs[0], None, events))
            continue
        st, m = prove(z3.And(*claims), list(pa.pc), label="W-content")
        if st == "sat":
            rep.violation({"kind": "wrap-content"}, "after an abandoned message and a full turn of the sequence counter a delivered payload is not the one sent (bytes of the abandoned message)",
                          wit(m, pa, job, [c0], msgs, msgs[0], None, events))
        elif st == "unknown":
            rep.inconc("W content undecided")
    return dict(violations=rep.violations, inconclusive=rep.inconclusive, errors=rep.harness_errors, samples=[], stats=explorer.STATS, states=len(paths), trans=trans[0])


@guarded
def _s_worker(_):
    """(S) symbolic stream identities"""
    from . import explorer
    explorer.STATS.__init__()
    R = _G["R"]
    pg = _G["pgns"]
    rep = Report(PID, _G["tier"], 0, "model_checking")
    s1, d1, s2, d2 = (z3.BitVec(n, 8) for n in ("s1", "d1", "s2", "d2"))
    p1, frames1 = make_frames("a", 13, 2)
    p2, frames2 = make_frames("b", 13, 2)
    for same_pgn in (True, False):
        pgn1, pgn2 = pg[0], (pg[0] if same_pgn else pg[1])
        assume = [z3.Or(s1 != s2, d1 != d2)] if same_pgn else []

        def h():
            dec = R.decoder.NMEA2000Decoder()
            calls = []
            dec._call_decode_function = lambda pgn_, pr_, s_, d_, ts_, data, iso, raw: calls.append((pgn_, s_, d_, data)) or ("MSG", len(calls))
            S1, D1, S2, D2 = (SymInt(z3.ZeroExt(1, v), 8) for v in (s1, d1, s2, d2))
            r = [dec._decode(pgn1, 3, S1, D1, TS, frames1[0], b""), dec._decode(pgn2, 3, S2, D2, TS, frames2[0], b""),
                 dec._decode(pgn1, 3, S1, D1, TS, frames1[1], b""), dec._decode(pgn2, 3, S2, D2, TS, frames2[1], b"")]
            return r, calls
        try:
            paths, ex = explore(h, max_paths=256, assumptions=assume)
        except Unsupported as e:
            rep.inconc("S: %s" % e)
            continue
        for pa in paths:
            def w(m):
                return {"kind": "streams", "same_pgn": same_pgn, "s1": m.eval(s1, True).as_long(), "d1": m.eval(d1, True).as_long(),
                        "s2": m.eval(s2, True).as_long(), "d2": m.eval(d2, True).as_long(), "pgns": [pgn1, pgn2]}
            st0, m0 = satisfiable(z3.And(pa.cond(), *assume))
            if st0 != "sat":
                continue
            if pa.kind != "return":
                rep.violation({"kind": "streams-raise"}, "raised %r" % (pa.value,), w(m0))
                continue
            r, calls = pa.value
            if r[0] is not None or r[1] is not None or r[2] is None or r[3] is None or len(calls) != 2 or \
                    len(calls[0][3]) != 13 or len(calls[1][3]) != 13:
                rep.violation({"kind": "streams-mixed"}, "two streams differing in source/destination/PGN disturb each other", w(m0))
                continue
            claims = [truth(SymInt.lift(calls[0][3][12 - q]) == p1[q]) for q in range(13)] + \
                     [truth(SymInt.lift(calls[1][3][12 - q]) == p2[q]) for q in range(13)]
            st, m = prove(z3.And(*claims), assume + pa.pc, label="S-content")
            if st == "sat":
                rep.violation({"kind": "streams-mixed"}, "bytes mixed across streams", w(m))
        rep.sample({"streams": "symbolic (source, destination), same PGN" if same_pgn else "different PGN", "paths": len(paths)})
    return dict(violations=rep.violations, inconclusive=rep.inconclusive, errors=rep.harness_errors, samples=rep.samples,
                stats=explorer.STATS, states=2, trans=8)


def run(tier, seed):
    import multiprocessing as mp
    from . import explorer
    rep = Report(PID, tier, seed, "model_checking")
    D = db()
    R = loader.load()
    _G.update(R=R, D=D, tier=tier, pgns=pick_fast_pgns(D))
    rep.functions = ["decoder.NMEA2000Decoder._decode", "decoder._decode_fast_message", "decoder.fast_pgn_metadata"]
    maxp = 4 if tier == "quick" else 5
    sizes = (20, 13)
    rep.bounds = {"stream X": "messages of %r bytes + one intact 9-byte message; per message: first frame lost or not, then up to %d picks "
                              "(with repetition, any order) among its frames" % (sizes, maxp),
                  "stream Y": "13-byte messages from another source interleaved after every X frame, or after every other X frame (odd / even feeds)",
                  "bytes/padding/counters": "symbolic; consecutive counters distinct",
                  "counter wrap-around (W)": "an abandoned 13- or 20-byte message (first frame only), then 8 intact 13-byte messages with the counters c+1..c+8 mod 8, c symbolic",
                  "stream identities (S)": "symbolic source/destination (8 bits each), 2 PGNs"}
    rep.outside = ["histories longer than the bound", "more than two concurrent streams", "frames older than the previous message of the stream"]
    jobs = [(fc, sizes, maxp) for fc in (0, 1)] + [(fc, (27, 13), maxp) for fc in (0, 1)]
    # the second stream's frames after every other X frame only (two consecutive X frames with no foreign frame between them)
    mp4 = min(maxp, 4)        # the variants below keep the quick tier's pick bound in the thorough tier too (wall time)
    jobs += [(0, sizes, mp4, "odd"), (0, sizes, mp4, "even"), (0, (13, 13), mp4, "odd"), (0, (13, 13), mp4, "even")]
    # payload lengths that are multiples of 7 (the last frame carries a single byte)
    jobs += [(fc, (14, 7), mp4) for fc in (0, 1)] + [(0, (21, 14), 3)]
    # a message that fits into its first frame between two longer ones; only consecutive counters are assumed different
    jobs += [(0, (20, 5, 13), 2, "every", "consecutive"), (0, (13, 6, 13), 2, "odd", "consecutive")]
    # stragglers: frames of the previous message (its counter) arriving between the frames of the next message of the stream
    jobs += [(0, (13, 13), 3, "every", "consecutive", "stray"), (0, (20, 13), 3, "odd", "pairwise", "stray"), (0, (13, 20), 3, "even", "consecutive", "stray")]
    if tier == "thorough":
        jobs += [(fc, (13, 20), maxp) for fc in (0, 1)] + [(fc, (34, 7), maxp) for fc in (0, 1)] + [(fc, (20, 27), maxp) for fc in (0, 1)]
    ctx = mp.get_context("fork")
    states = trans = 0
    with ctx.Pool(min(16, len(jobs) + 3)) as pool:
        rs = [pool.apply_async(_b_worker, (j,)) for j in jobs] + [pool.apply_async(_s_worker, (0,))] + [pool.apply_async(_wrap_worker, (n0,)) for n0 in (13, 20)]
        for r in rs:
            part = r.get()
            for v in part["violations"]:
                rep.violation(*v)
            rep.inconclusive += part["inconclusive"]
            rep.harness_errors += part["errors"]
            for s in part["samples"]:
                rep.sample(s)
            explorer.STATS.merge(part["stats"])
            states += part["states"]
            trans += part["trans"]
    rep.coverage.update(states=max(1, states), transitions=max(1, trans), traces_validated_against_impl=0,
                        explanation="states = explored histories (paths), transitions = frames fed to the real decoder")
    rep.assumptions = ["the messages of a history carry pairwise different sequence counters when first frames may be lost; when every first frame arrives only consecutive messages are assumed to differ (the property's own assumption)",
                       "stragglers (frames of the previous message after the next message's first frame) are explored in the three 'stray' jobs only; the oracle there: ignored, and the message in progress is unaffected"]
    code = rep.finish(replay)
    return code


def replay(r):
    from .plain import plain
    N = plain()
    pg = pick_fast_pgns(db())
    if r["kind"] == "streams":
        dec = N.decoder.NMEA2000Decoder()
        calls = []
        dec._call_decode_function = lambda pgn_, pr_, s_, d_, ts_, data, iso, raw: calls.append((pgn_, s_, d_, bytes(data))) or "MSG"
        a = [bytes([0x40, 13, 1, 2, 3, 4, 5, 6]), bytes([0x41, 7, 8, 9, 10, 11, 12, 13])]
        b = [bytes([0x40, 13, 21, 22, 23, 24, 25, 26]), bytes([0x41, 27, 28, 29, 30, 31, 32, 33])]
        p1, p2 = r["pgns"]
        rr = [dec._decode(p1, 3, r["s1"], r["d1"], TS, a[0][::-1], b""), dec._decode(p2, 3, r["s2"], r["d2"], TS, b[0][::-1], b""),
              dec._decode(p1, 3, r["s1"], r["d1"], TS, a[1][::-1], b""), dec._decode(p2, 3, r["s2"], r["d2"], TS, b[1][::-1], b"")]
        good = rr[0] is None and rr[1] is None and rr[2] == "MSG" and rr[3] == "MSG" and len(calls) == 2 and \
            calls[0][3][::-1] == bytes(range(1, 14)) and calls[1][3][::-1] == bytes(range(21, 34))
        return not good, "returns %r, deliveries %r" % (rr, [c[3][::-1].hex() for c in calls])
    if r["kind"] == "history":
        # re-run the same frame sequence on the plain decoder with the reference reassembler of the property text
        dec = N.decoder.NMEA2000Decoder()
        calls = []
        dec._call_decode_function = lambda pgn_, pr_, s_, d_, ts_, data, iso, raw: calls.append(bytes(data)[::-1]) or "MSG"
        cur = None
        problems = []
        for who, hx in r["frames"]:
            fr = bytes.fromhex(hx)          # as received: reversed CAN data
            if who == "Y":
                try:
                    dec._decode(pg[0], 3, 9, 255, TS, fr, b"")      # the interleaved stream (other source); its own deliveries are not judged here
                except Exception as e:
                    return True, "decoder raised %r" % (e,)
                continue
            can = fr[::-1]
            seq, idx = can[0] >> 5, can[0] & 31
            exp = None
            if idx == 0:
                if cur is None or cur["seq"] != seq:
                    cur = {"seq": seq, "n": can[1], "fr": {0: can[2:]}}
            elif cur is not None and cur["seq"] == seq and idx not in cur["fr"]:
                cur["fr"][idx] = can[1:]
            else:
                idx = None
            if cur is not None and idx is not None:
                need = 1 if cur["n"] <= 6 else 1 + (cur["n"] - 6 + 6) // 7
                if all(k in cur["fr"] for k in range(need)):
                    exp = b"".join(cur["fr"][k] for k in range(need))[:cur["n"]]
                    cur = None
            n0 = len(calls)
            try:
                ret = dec._decode(pg[0], 3, 7, 255, TS, fr, b"")
            except Exception as e:
                return True, "decoder raised %r" % (e,)
            got = calls[-1] if len(calls) > n0 else None
            if (exp is None) != (got is None) or (exp is not None and got != exp):
                problems.append("frame %s: delivered %r, expected %r" % (can.hex(), got.hex() if got else None, exp.hex() if exp else None))
                break
        return bool(problems), "; ".join(problems)
    return None, "unknown"
