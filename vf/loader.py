"""Load /repo's modules from source on every run, instrumented in memory for symbolic execution.
Nothing under /repo is modified."""
import ast
import builtins
import hashlib
import os
import sys
import types

from . import proxies as P
from . import symcoll
from .explorer import EX, Unsupported

REPO = os.environ.get("NMEA2000_REPO", "/repo")

REWRITES = [
    "`a is None` / `a is not None` -> _sx_is/_sx_is_not (identity cannot be intercepted by a proxy)",
    "`not x` -> _sx_not(x) (keeps symbolic Booleans symbolic)",
    "logger.<level>(...) statements -> pass",
    "f-strings -> _sx_fstr([...]) (point-wise / symbolic hex rendering)",
    "loop bodies get _sx_tick() (loop fuel = unwinding assertion)",
    "dict/set literals, comprehensions and dict()/set() -> SymDict/SymSet (sound lookups under symbolic keys)",
    "`sep.join(x)` on a string literal -> _sx_join (symbolic text)",
    "`a in b` / `a not in b` -> _sx_in/_sx_not_in",
]


class Rewriter(ast.NodeTransformer):
    def __init__(self, drop_logging=True):
        self.drop_logging = drop_logging

    def visit_Compare(self, node):
        self.generic_visit(node)
        if len(node.ops) == 1 and isinstance(node.ops[0], (ast.Is, ast.IsNot)):
            fn = "_sx_is" if isinstance(node.ops[0], ast.Is) else "_sx_is_not"
            return ast.copy_location(
                ast.Call(ast.Name(fn, ast.Load()), [node.left, node.comparators[0]], []), node)
        if len(node.ops) == 1 and isinstance(node.ops[0], (ast.In, ast.NotIn)):
            fn = "_sx_in" if isinstance(node.ops[0], ast.In) else "_sx_not_in"
            return ast.copy_location(
                ast.Call(ast.Name(fn, ast.Load()), [node.left, node.comparators[0]], []), node)
        return node

    def visit_UnaryOp(self, node):
        self.generic_visit(node)
        if isinstance(node.op, ast.Not):
            return ast.copy_location(ast.Call(ast.Name("_sx_not", ast.Load()), [node.operand], []), node)
        return node

    def visit_Call(self, node):
        self.generic_visit(node)
        f = node.func
        if isinstance(f, ast.Attribute) and f.attr == "join" and isinstance(f.value, ast.Constant) \
                and isinstance(f.value.value, str) and len(node.args) == 1:
            return ast.copy_location(ast.Call(ast.Name("_sx_join", ast.Load()), [f.value, node.args[0]], []), node)
        return node

    def visit_Expr(self, node):
        v = node.value
        if self.drop_logging and isinstance(v, ast.Call) and isinstance(v.func, ast.Attribute) and v.func.attr in (
                "debug", "info", "warning", "error", "exception", "critical") and "logger" in ast.unparse(v.func.value):
            return ast.copy_location(ast.Pass(), node)
        return self.generic_visit(node)

    def visit_JoinedStr(self, node):
        self.generic_visit(node)
        parts = []
        for v in node.values:
            if isinstance(v, ast.Constant):
                parts.append(v)
            else:  # FormattedValue
                spec = v.format_spec if v.format_spec is not None else ast.Constant(None)
                if isinstance(spec, ast.Call):   # nested JoinedStr already rewritten -> call
                    pass
                parts.append(ast.Tuple([v.value, ast.Constant(v.conversion), spec], ast.Load()))
        return ast.copy_location(ast.Call(ast.Name("_sx_fstr", ast.Load()), [ast.List(parts, ast.Load())], []), node)

    def visit_Assert(self, node):
        self.generic_visit(node)
        lam = ast.Lambda(ast.arguments(posonlyargs=[], args=[], kwonlyargs=[], kw_defaults=[], defaults=[]), node.test)
        return ast.copy_location(ast.Expr(ast.Call(ast.Name("_sx_assert", ast.Load()), [lam], [])), node)

    def _wrap(self, node, fn):
        self.generic_visit(node)
        return ast.copy_location(ast.Call(ast.Name(fn, ast.Load()), [node], []), node)

    def visit_Dict(self, node):
        return self._wrap(node, "_sx_dict")

    def visit_DictComp(self, node):
        return self._wrap(node, "_sx_dict")

    def visit_Set(self, node):
        return self._wrap(node, "_sx_set")

    def visit_SetComp(self, node):
        return self._wrap(node, "_sx_set")

    def _tick(self, node):
        self.generic_visit(node)
        node.body.insert(0, ast.Expr(ast.Call(ast.Name("_sx_tick", ast.Load()), [], [])))
        return node

    visit_While = _tick
    visit_For = _tick
    visit_AsyncFor = _tick


def _sx_tick():
    from .explorer import _STACK
    if _STACK:
        _STACK[-1].tick()
    if TICK_HOOK[0] is not None:
        TICK_HOOK[0]()


TICK_HOOK = [None]


def _sx_assert(thunk):
    """`assert cond`: the condition is evaluated in a nested exploration and merged into one Boolean term;
    a possibly-false condition becomes a deferred AssertionError guard instead of a fork per disjunct"""
    from .explorer import _STACK, explore
    import z3
    if not _STACK:
        if not thunk():
            raise AssertionError()
        return
    outer = _STACK[-1]
    paths, _ = explore(thunk, fuel=outer.fuel0)
    ok = []
    bad = []
    for p in paths:
        g = p.cond()
        if p.kind == "return":
            v = p.value
            if isinstance(v, P.SymBool):
                ok.append(z3.And(g, v.t))
                bad.append(z3.And(g, z3.Not(v.t)))
            elif v:
                ok.append(g)
            else:
                bad.append(g)
        elif p.kind == "raise":
            outer.deferred.append((g, p.value))
        else:
            raise Unsupported("assert condition ended with %s" % p.kind)
    if not bad:
        return
    badc = z3.simplify(z3.Or(*bad))
    if z3.is_false(badc):
        return
    if ASSERT_DEFER[0]:
        outer.deferred.append((badc, AssertionError()))
    elif outer.branch(badc):
        raise AssertionError()


ASSERT_DEFER = [True]


def _sx_not(x):
    return P.sym_not(x)


def _sx_in(a, c):
    if type(c) in (dict, set, frozenset) and isinstance(a, P.SymInt):
        c = symcoll.SymDict(c) if type(c) is dict else symcoll.SymSet(c)
    if hasattr(c, "__sx_contains__"):
        return c.__sx_contains__(a)
    if hasattr(a, "__sx_in__"):
        return a.__sx_in__(c)
    if isinstance(a, P.SymInt) and isinstance(c, (list, tuple)):
        r = False
        for x in c:
            e = a == x
            if isinstance(e, P.SymBool):
                r = e if r is False else (r | e)
            elif e:
                return True
        return r
    return a in c


def _sx_not_in(a, c):
    return P.sym_not(_sx_in(a, c))


class SymRope:
    """text made of literal pieces and symbolic values (result of an f-string over proxies).  Two ropes are equal
    iff their layouts agree and the symbolic pieces are equal (decimal renderings of integers contain no
    separator characters, so the concatenation is injective for the key formats used in the repository)."""
    __sx_symkey__ = True

    def __init__(self, parts):
        self.parts = parts

    def _layout(self):
        return tuple(p if isinstance(p, str) else None for p in self.parts)

    def __eq__(self, o):
        import z3
        if isinstance(o, SymRope):
            if self._layout() != o._layout():
                return False
            cs = []
            for a, b in zip(self.parts, o.parts):
                if isinstance(a, str):
                    continue
                if isinstance(a, P.SymInt) and isinstance(b, P.SymInt):
                    cs.append(P.truth(a == b))
                elif a is b:
                    continue
                else:
                    raise Unsupported("rope comparison of %r" % type(a).__name__)
            return P.SymBool(z3.And(*cs)) if cs else True
        if isinstance(o, str):
            raise Unsupported("comparison of symbolic text with a concrete string")
        return False

    def __ne__(self, o):
        return P.sym_not(self.__eq__(o))

    def __hash__(self):
        return P.SymInt.WEAK_HASH

    def __add__(self, o):
        if isinstance(o, str):
            return SymRope(self.parts + [o])
        if isinstance(o, SymRope):
            return SymRope(self.parts + o.parts)
        return NotImplemented

    def __radd__(self, o):
        if isinstance(o, str):
            return SymRope([o] + self.parts)
        return NotImplemented

    def __str__(self):
        return "".join(p if isinstance(p, str) else "<symbolic>" for p in self.parts)

    __repr__ = __str__


def _unique_value(v):
    """the single value a symbolic int can take under the current path condition, if there is only one"""
    from .explorer import _STACK
    import z3
    if not _STACK:
        return None
    ex = _STACK[-1]
    try:
        r, m = ex.model_for(*[c for c in ex.pc])
        if m is None:
            return None
        c = m.eval(v.t, True)
        if not z3.is_bv_value(c):
            return None
        if ex._check(v.t != c):
            return None
        return c.as_signed_long()
    except Unsupported:
        return None


def _sx_fstr(parts):
    out = []
    symbolic = False
    rope = False
    for p in parts:
        if isinstance(p, str):
            out.append(p)
            continue
        v, conv, spec = p
        if isinstance(v, P.SymInt) and not spec:
            v2 = v.simp()
            if not isinstance(v2, int):
                u = _unique_value(v2)
                if u is not None:
                    v2 = u
            if isinstance(v2, int):
                out.append(str(v2))
            else:
                out.append(v2)
                rope = True
            continue
        if hasattr(v, "__sx_format__"):
            out.append(v.__sx_format__(conv, spec))
            symbolic = symbolic or not isinstance(out[-1], str)
            continue
        if isinstance(v, P.SYM_TYPES):
            out.append(v)      # opaque piece (exception messages and the like)
            rope = True
            continue
        if conv == ord("r"):
            v = repr(v)
        elif conv == ord("s"):
            v = str(v)
        elif conv == ord("a"):
            v = ascii(v)
        out.append(format(v, spec) if spec else format(v))
    if rope:
        if symbolic:
            raise Unsupported("f-string mixing symbolic text and symbolic numbers")
        merged = []
        for x in out:
            if isinstance(x, str) and merged and isinstance(merged[-1], str):
                merged[-1] += x
            else:
                merged.append(x)
        return SymRope(merged)
    if not symbolic:
        return "".join(out)
    r = out[0]
    for x in out[1:]:
        r = r + x
    return r


def _sx_join(sep, it):
    from .textsym import sx_join
    return sx_join(sep, it)


SOURCE_HASH = {}


def load_module(modname, relpath, package="nmea2000", pre=None, drop_logging=True):
    path = os.path.join(REPO, relpath)
    src = open(path).read()
    SOURCE_HASH[relpath] = hashlib.sha256(src.encode()).hexdigest()[:16]
    tree = Rewriter(drop_logging).visit(ast.parse(src, path))
    ast.fix_missing_locations(tree)
    mod = types.ModuleType(modname)
    mod.__file__ = path
    mod.__package__ = package
    g = mod.__dict__
    g.update(_sx_is=P._sx_is, _sx_is_not=P._sx_is_not, _sx_not=_sx_not, _sx_in=_sx_in, _sx_not_in=_sx_not_in,
             _sx_fstr=_sx_fstr, _sx_tick=_sx_tick, _sx_join=_sx_join, _sx_assert=_sx_assert,
             _sx_dict=symcoll.SymDict, _sx_set=symcoll.SymSet, dict=symcoll.SymDict, set=symcoll.SymSet)
    if pre:
        g.update(pre)
    sys.modules[modname] = mod
    exec(compile(tree, path, "exec"), g)
    return mod


class _StrNS:
    """replacement for the name `str` (callable, usable in `int | str` annotations and isinstance)"""

    def __call__(self, x=""):
        return _sx_str(x)

    def __or__(self, o):
        return str | o

    def __ror__(self, o):
        return o | str

    def __instancecheck__(self, inst):
        return isinstance(inst, str)


def _sx_str(x=""):
    """str() inside instrumented modules: a symbolic int that can take only one value on this path renders as that
    value; otherwise an opaque piece of text (SymRope)"""
    if isinstance(x, P.SymInt):
        v = x.simp()
        if not isinstance(v, int):
            v = _unique_value(v)
        if isinstance(v, int):
            return str(v)
        return SymRope([x])
    if isinstance(x, SymRope):
        return x
    if isinstance(x, P.SYM_TYPES):
        return SymRope([x])
    return str(x)


sx_str = _StrNS()
_old_real_cls = P._real_cls


def _real_cls2(cls):
    if cls is sx_str:
        return str
    return _old_real_cls(cls)


P._real_cls = _real_cls2

REBIND = dict(int=P.sx_int, bytes=P.sx_bytes, isinstance=lambda o, c: P.sx_isinstance(o, c),
              round=lambda *a: P.sx_round(*a), sum=lambda *a: P.sx_sum(*a), min=lambda *a: P.sx_min(*a),
              len=lambda x: P.sx_len(x))


def rebind(mod, names=None):
    for k, v in REBIND.items():
        if names is None or k in names:
            mod.__dict__[k] = v


class Repo:
    """the instrumented package; built fresh by load()"""
    pass


def load(with_pgns=True, with_io=False, drop_logging=True, kernel_defer=True):
    """load nmea2000.{consts,utils,message,pgns,decoder,encoder[,ioclient]} instrumented under the names
    sx_nmea2000.* so that the plain package stays importable for replays"""
    pk = "sx_nmea2000"
    for k in [k for k in sys.modules if k == pk or k.startswith(pk + ".")]:
        del sys.modules[k]
    pkg = types.ModuleType(pk)
    pkg.__path__ = [os.path.join(REPO, "nmea2000")]
    pkg.__package__ = pk
    sys.modules[pk] = pkg
    R = Repo()
    R.consts = load_module(pk + ".consts", "nmea2000/consts.py", pk)
    R.utils = load_module(pk + ".utils", "nmea2000/utils.py", pk, drop_logging=drop_logging)
    rebind(R.utils)
    R.message = load_module(pk + ".message", "nmea2000/message.py", pk, drop_logging=drop_logging)
    rebind(R.message, ("isinstance", "int"))
    if with_pgns:
        R.pgns = load_module(pk + ".pgns", "nmea2000/pgns.py", pk, drop_logging=drop_logging)
        rebind(R.pgns, ("isinstance", "int", "bytes"))
        R.pgns.__dict__["str"] = sx_str
        for tname in ("master_dict", "master_flags_dict", "master_indirect_lookup_dict"):
            for k, tbl in R.pgns.__dict__.get(tname, {}).items():
                if isinstance(tbl, symcoll.SymDict):
                    tbl.sx_name = (tname, k)
        R.decoder = load_module(pk + ".decoder", "nmea2000/decoder.py", pk, drop_logging=drop_logging)
        rebind(R.decoder, ("isinstance", "int", "bytes", "sum"))
        R.encoder = load_module(pk + ".encoder", "nmea2000/encoder.py", pk, drop_logging=drop_logging)
        rebind(R.encoder, ("isinstance", "int", "bytes", "min"))
        if with_io:
            R.ioclient = load_module(pk + ".ioclient", "nmea2000/ioclient.py", pk, drop_logging=drop_logging)
    return R


def source_hashes():
    return dict(SOURCE_HASH)
