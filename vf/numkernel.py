"""Kernel-level obligations for the numeric codecs in nmea2000/utils.py, per distinct database signature
(bit length, signedness, resolution, offset, range).  The real functions are executed (a) over bit-vectors and
exact binary64, (b) over mathematical integers and the rounding-error model."""
from fractions import Fraction
import math
import z3

from .explorer import explore, prove, satisfiable, Unsupported
from .proxies import SymInt, SymFloat, SymOpt, SymBool, merge_paths, truth, ev
from .realmodel import SymIntZ, SymReal, real_context, rv, U
from . import proxies as P

TOL = Fraction(1, 2 ** 50)


class Sig:
    """numeric signature of a database field"""

    def __init__(self, f):
        self.L = f.len
        self.signed = f.signed
        self.res = f.res                   # Fraction (exact decimal)
        self.offset = f.offset
        self.rmin, self.rmax = f.rmin, f.rmax
        self.res_py = f.flt("Resolution")  # what the generated source passes (int or float)
        self.min_py = f.flt("RangeMin")
        self.max_py = f.flt("RangeMax")
        self.type = f.type

    def key(self):
        return (self.L, self.signed, str(self.res), str(self.offset), str(self.rmin), str(self.rmax))

    @property
    def sentinel(self):
        """raw pattern (unsigned view) that means 'not available' under the database's rule"""
        return (1 << self.L) - 1 if not self.signed else (1 << (self.L - 1)) - 1

    def raw_range(self):
        """exact integer interval of signed-interpreted raw values inside the database range"""
        lo = math.ceil((self.rmin - self.offset) / self.res) if self.rmin is not None else None
        hi = math.floor((self.rmax - self.offset) / self.res) if self.rmax is not None else None
        return lo, hi

    def sentinel_in_range(self):
        lo, hi = self.raw_range()
        s = self.sentinel if not self.signed else (1 << (self.L - 1)) - 1
        return hi is not None and hi >= s and (lo is None or lo <= s)

    def describe(self):
        return "%d-bit %s x%s%s range [%s, %s]" % (self.L, "signed" if self.signed else "unsigned", self.res,
                                                     (" +%s" % self.offset) if self.offset else "", self.rmin, self.rmax)


def signed_view(xbv, L, signed):
    """z3 BV (L+1 bits, signed) of the raw field bits under the database's signedness"""
    return z3.SignExt(1, xbv) if signed else z3.ZeroExt(1, xbv)


def in_range_bv(sig, xbv):
    """raw (under DB signedness) lies in the DB range, or is the not-available pattern"""
    v = signed_view(xbv, sig.L, sig.signed)
    lo, hi = sig.raw_range()
    w = max(sig.L + 2, (abs(lo) if lo is not None else 0).bit_length() + 2, (abs(hi) if hi is not None else 0).bit_length() + 2)
    ve = z3.SignExt(w - v.size(), v)
    cs = []
    if lo is not None:
        cs.append(ve >= z3.BitVecVal(lo, w))
    if hi is not None:
        cs.append(ve <= z3.BitVecVal(hi, w))
    return z3.And(*cs) if cs else z3.BoolVal(True)


def run_kernel(fn, *args):
    """explore a pure kernel on symbolic arguments; return (merged value, raise condition, exception)"""
    paths, ex = explore(lambda: fn(*args))
    return merge_paths(paths)


_REF = {}


def subst(v, pairs):
    """substitute z3 variables inside a proxy value"""
    from .envmodels import SymDate, SymTime
    if v is None or not P.is_symbolic(v):
        return z3.substitute(v, *pairs) if z3.is_expr(v) else v
    if isinstance(v, SymOpt):
        return SymOpt(z3.substitute(v.none, *pairs), subst(v.inner, pairs))
    if isinstance(v, SymInt):
        return SymInt(z3.substitute(v.t, *pairs))
    if isinstance(v, SymFloat):
        return SymFloat(z3.substitute(v.t, *pairs))
    if isinstance(v, SymBool):
        return SymBool(z3.substitute(v.t, *pairs))
    if isinstance(v, SymDate):
        return SymDate(subst(v.ordinal, pairs))
    if isinstance(v, SymTime):
        return SymTime(subst(v.hour, pairs), subst(v.minute, pairs), subst(v.second, pairs))
    raise Unsupported("subst %r" % type(v))


def decode_number_ref(utils, sig, xbv, off=0):
    """the real decode_number on the raw bits with the DATABASE's arguments (run once per signature on a
    canonical variable, then instantiated by substitution)"""
    k = ("num",) + sig.key()
    if k not in _REF:
        xc = z3.BitVec("xref%d" % sig.L, sig.L)
        x = SymInt(z3.ZeroExt(1, xc))
        _REF[k] = (xc,) + tuple(run_kernel(utils.decode_number, x, off, sig.L, sig.signed, sig.res_py, sig.min_py, sig.max_py))
    xc, out, rc, exc = _REF[k]
    if z3.is_const(xbv) and xbv.eq(xc):
        return out, rc, exc
    pairs = [(xc, xbv)]
    return subst(out, pairs), z3.substitute(rc, *pairs), exc


def kernel_ref(tag, fn, xc, make_args):
    """generic cached reference run: fn(*make_args(xc)) on canonical variable xc"""
    if tag not in _REF:
        _REF[tag] = (xc,) + tuple(run_kernel(fn, *make_args(xc)))
    return _REF[tag]


def check_decode_number(utils, sig, rep, tier):
    """semantic obligations of the real decode_number for one signature; returns list of (kind, status)"""
    L = sig.L
    x = z3.BitVec("x", L)
    out, rc, exc = decode_number_ref(utils, sig, x)
    tag = "decode_number[%s]" % sig.describe()
    results = []
    none_c = out.none if isinstance(out, SymOpt) else z3.BoolVal(out is None)
    none_c = z3.And(none_c, z3.Not(rc))          # "returns None" (a raising call returns nothing)
    sent = x == z3.BitVecVal(sig.sentinel, L)
    # B1: not-available rule (the rule canboat.json states under FieldTypes.NUMBER): fields of >= 2 bits
    if L >= 2:
        if sig.sentinel_in_range():
            claim = z3.Implies(z3.Not(sent), z3.Not(none_c))      # the pattern itself: either answer accepted
        else:
            claim = none_c == sent
    else:
        claim = z3.Implies(z3.Not(sent), z3.Not(none_c))
    st, m = prove(claim, label="B1 none-rule " + tag)
    results.append(("none-rule", st, (m.eval(x, True).as_long() if st == "sat" else None)))
    # B2/B3 share one run of the real kernel over mathematical integers and the rounding-error model
    with real_context() as c:
        xi = z3.Int("xi")
        outz, rcz, _ = run_kernel(utils.decode_number, SymIntZ(xi, (0, L)), 0, L, sig.signed, sig.res_py, sig.min_py, sig.max_py)
        dom = [xi >= 0, xi < (1 << L)] + c.cons
    sxz = z3.If(xi >= (1 << (L - 1)), xi - (1 << L), xi) if sig.signed else xi
    # B3: no spurious failure: raw in DB range (exact integer condition) => no raise.  Proved in the rounding-error model
    # (every binary64 execution is a model); only if that fails is exact binary64 asked (and must confirm before reporting)
    lo_, hi_ = sig.raw_range()
    inr_z = z3.And(*([sxz >= lo_] if lo_ is not None else []) + ([sxz <= hi_] if hi_ is not None else []) + [z3.BoolVal(True)])
    if not sig.sentinel_in_range():
        inr_z = z3.And(inr_z, xi != sig.sentinel)
    st, m = prove(z3.Not(rcz), dom + [inr_z], label="B3 in-range-accepted (rounding model) " + tag)
    if st == "unknown":
        # no answer within the default minute (a loaded machine): one more attempt with a generous limit before the exact query
        st, m = prove(z3.Not(rcz), dom + [inr_z], label="B3 in-range-accepted (rounding model) " + tag, timeout_ms=300000)
    wit3 = None
    if st != "unsat":
        inr = z3.And(in_range_bv(sig, x), z3.Not(sent)) if not sig.sentinel_in_range() else in_range_bv(sig, x)
        cand = m.eval(xi, True).as_long() if st == "sat" else None
        st = None
        if cand is not None:
            # try the candidate itself in exact binary64 (constant folding), then the general exact query
            g = z3.simplify(z3.substitute(rc, (x, z3.BitVecVal(cand, L))))
            if z3.is_true(g):
                st, wit3 = "sat", cand
        if st is None:
            st, m = prove(z3.Not(rc), [inr], label="B3 in-range-accepted (exact) " + tag, timeout_ms=180000 if tier == "thorough" else 90000)
            wit3 = m.eval(x, True).as_long() if st == "sat" else None
    results.append(("in-range-rejected", st, wit3))
    # B2: value = raw*Resolution + Offset to within binary64 rounding   [rounding-error model]
    nz = outz.none if isinstance(outz, SymOpt) else z3.BoolVal(outz is None)
    val = outz.inner if isinstance(outz, SymOpt) else outz
    if val is not None:
        sx = z3.If(xi >= (1 << (L - 1)), xi - (1 << L), xi) if sig.signed else xi
        exact = z3.ToReal(sx) * rv(sig.res) + rv(sig.offset)
        vt = val.t if isinstance(val, SymReal) else z3.ToReal(val.t) if isinstance(val, SymIntZ) else rv(Fraction(val))
        mag = z3.If(exact >= 0, exact, -exact) + rv(abs(sig.offset))
        claim = z3.And(vt - exact <= rv(TOL) * mag, exact - vt <= rv(TOL) * mag)
        st, m = prove(claim, dom + [z3.Not(nz), z3.Not(rcz)], label="B2 value " + tag)
        results.append(("value", st, (m.eval(xi, True).as_long() if st == "sat" else None)))
    return results


def eq_term(a, b):
    """z3 Bool: two proxy values are the same Python value"""
    from .envmodels import SymDate, SymTime
    from .symcoll import SymMap
    if isinstance(a, SymOpt) or isinstance(b, SymOpt):
        an = a.none if isinstance(a, SymOpt) else z3.BoolVal(a is None)
        bn = b.none if isinstance(b, SymOpt) else z3.BoolVal(b is None)
        ai = a.inner if isinstance(a, SymOpt) else a
        bi = b.inner if isinstance(b, SymOpt) else b
        inner = eq_term(ai, bi) if (ai is not None and bi is not None) else z3.BoolVal(True)
        return z3.And(an == bn, z3.Implies(z3.Not(an), inner))
    if a is None or b is None:
        return z3.BoolVal(a is None and b is None)
    if isinstance(a, (SymFloat, float)) or isinstance(b, (SymFloat, float)):
        if isinstance(a, (SymInt, int)) != isinstance(b, (SymInt, int)) and (isinstance(a, (SymInt, int)) or isinstance(b, (SymInt, int))):
            return z3.BoolVal(False)     # int vs float: different Python types
        return SymFloat.lift(a).t == SymFloat.lift(b).t
    if isinstance(a, (SymInt, int)) and isinstance(b, (SymInt, int)):
        return truth(SymInt.lift(a) == SymInt.lift(b))
    import datetime as _dtm
    if isinstance(a, _dtm.date) and not isinstance(a, _dtm.datetime) and isinstance(b, SymDate):
        a = SymDate(a.toordinal())
    if isinstance(b, _dtm.date) and not isinstance(b, _dtm.datetime) and isinstance(a, SymDate):
        b = SymDate(b.toordinal())
    if isinstance(a, _dtm.time) and isinstance(b, SymTime):
        a = SymTime(a.hour, a.minute, a.second) if a.microsecond == 0 else a
    if isinstance(b, _dtm.time) and isinstance(a, SymTime):
        b = SymTime(b.hour, b.minute, b.second) if b.microsecond == 0 else b
    if isinstance(a, SymDate) and isinstance(b, SymDate):
        return eq_term(a.ordinal, b.ordinal)
    if isinstance(a, SymTime) and isinstance(b, SymTime):
        return z3.And(eq_term(a.hour, b.hour), eq_term(a.minute, b.minute), eq_term(a.second, b.second))
    if isinstance(a, SymMap) and isinstance(b, SymMap):
        if a.mapping != b.mapping or a.default != b.default:
            return z3.BoolVal(False)
        return eq_term(a.key, b.key)
    if type(a) is type(b) and not P.is_symbolic(a):
        return z3.BoolVal(a == b)
    tn = (type(a).__name__, type(b).__name__)
    if tn == ("SymBinary", "SymBinary"):
        # int_to_bytes of a symbolic integer: equal bytes iff equal integers
        return eq_term(a.value, b.value)
    if tn == ("SymFlags", "SymFlags"):
        return z3.And(z3.BoolVal(dict(a.table) == dict(b.table)), eq_term(a.raw, b.raw))
    if tn == ("SymText", "SymText"):
        if len(a.items) != len(b.items) or a.ops != b.ops or a.encoding != b.encoding:
            return z3.BoolVal(False)
        return z3.And(*[eq_term(x, y) for x, y in zip(a.items, b.items)]) if a.items else z3.BoolVal(True)
    return z3.BoolVal(False)
