"""C16 - decoder instances are isolated and unharmed by bad input.
Decoder A receives an explorer-enumerated history of good and bad inputs (truncated frames, unknown PGNs,
out-of-range payloads, malformed text, bad checksums, unmatched proprietary frames, first frames of fast packets)
with symbolic bytes, while other decoder/encoder instances (one with unit preferences) are alive and in use.
Then the same probes - a single-frame message, a complete fast-packet message with a fresh sequence counter, a
proprietary message - are decoded by A, by B (created before the history, unused) and by a fresh C; z3 proves the
three results equal term for term.  Constructor defaults must be untouched; the same history twice gives the same results."""
import itertools
from datetime import datetime
import z3

from .common import Report, guarded, run_jobs
from .explorer import explore, prove, satisfiable, Unsupported, EX
from .hist import World, feed, msg_summary, eq_any, frames_of, P_SINGLE, P_FAST, P_MULTI, TS
from .proxies import SymInt, SymBytes

PID = "C16"
_G = {}
ITEMS = ["fast_first_other_seq", "trunc0", "trunc1", "trunc2", "unknown_pgn", "out_of_range", "bad_text", "bad_usb", "unmatched_multi",
         "units_decoder_same_payload", "encoder_use", "single_b", "trunc_single", "claim_to_other_decoder", "claim_a_everywhere", "bad_claim_a"]


def do_item(R, dec, others, w, item, sym):
    """feed one history item to decoder `dec`; returns a comparable outcome"""
    try:
        if item == "fast_first_other_seq":
            hdr = SymInt(z3.ZeroExt(1, z3.Concat(sym["hseq"], z3.BitVecVal(0, 5))), 8)
            body = [hdr, 11] + [SymInt(z3.ZeroExt(1, b), 8) for b in sym["hbytes"][:6]]
            return dec._decode(P_FAST, 3, w.src("a"), 255, TS, SymBytes(body[::-1]), b"")
        if item in ("trunc0", "trunc1", "trunc2"):
            n = int(item[-1])
            body = [SymInt(z3.ZeroExt(1, b), 8) for b in sym["hbytes"][:n]]
            return dec._decode(P_FAST, 3, w.src("a"), 255, TS, SymBytes(body[::-1]) if n else b"", b"")
        if item == "trunc_single":
            return dec._decode(P_SINGLE, 3, w.src("a"), 255, TS, bytes([1, 2]), b"")
        if item == "unknown_pgn":
            return dec._decode(99999, 3, w.src("a"), 255, TS, bytes(8), b"")
        if item == "out_of_range":
            body = [1, 0xFE, 0xFF, 0, 0, 0, 0, 0xFD]       # heading raw 65534: above RangeMax
            return dec._decode(P_SINGLE, 3, w.src("a"), 255, TS, bytes(body[::-1]), b"")
        if item == "bad_text":
            return dec.decode_yacht_devices_string("garbage line without structure")
        if item == "bad_usb":
            pk = bytearray(R.encoder.NMEA2000Encoder().encode_usb(_plain_msg(R))[0])
            pk[19] ^= 0x5A
            return dec.decode_usb(bytes(pk))
        if item == "unmatched_multi":
            body = [0xE5, 0x98, 0x10, 0, 0, 0, 0xFF, 0xFF]      # PGN 65285 with a manufacturer code no definition matches
            return dec._decode(65285, 3, w.src("a"), 255, TS, bytes(body[::-1]), b"")
        if item == "units_decoder_same_payload":
            for kind in ("single", "fast"):
                feed(others["units"], w, kind, "a")
            return None
        if item == "claim_a_everywhere":
            return None            # handled by the harness: every decoder of the comparison (references included) gets this valid claim first
        if item == "bad_claim_a":
            # an address claim from source a with another NAME whose system instance (14) is outside its range: rejected with an error
            bad = z3.Concat(z3.Extract(63, 60, w.name2), z3.BitVecVal(14, 4), z3.Extract(55, 0, w.name2))
            body = [SymInt(z3.ZeroExt(1, z3.Extract(8 * i + 7, 8 * i, bad)), 8) for i in range(8)]
            return dec._decode(60928, 6, w.src("a"), 255, TS, SymBytes(body[::-1]), b"")
        if item == "claim_to_other_decoder":
            feed(others["units"], w, "claim1", "a")       # another decoder instance learns the identity of the probe's source address
            return None
        if item == "encoder_use":
            others["encoder"].encode_ebyte(_plain_msg(R))
            return None
        if item == "single_b":
            return feed(dec, w, "single", "b")[-1]
    except Exception as e:
        return ("raised", type(e).__name__)
    raise ValueError(item)


def _plain_msg(R):
    d = R.decoder.NMEA2000Decoder()
    return d._decode(P_SINGLE, 3, 9, 255, TS, bytes([1, 0x10, 0x27, 0xFF, 0x7F, 0xFF, 0x7F, 0xFD][::-1]), b"")


def probes(R, dec, w, sym):
    out = []
    out.append(feed(dec, w, "single", "a")[-1])
    # complete fast packet with a fresh sequence counter (symbolic, different from the history's)
    seq = sym["pseq"]
    pay = [0x01, 0x00, SymInt(z3.ZeroExt(1, w.soc), 8), 0x64, 0xFF, 0xFF, 0xFF, 0xFF, 0xFF, 0xFF, 0xFF]
    f0 = [SymInt(z3.ZeroExt(1, z3.Concat(seq, z3.BitVecVal(0, 5))), 8), 11] + pay[:6]
    f1 = [SymInt(z3.ZeroExt(1, z3.Concat(seq, z3.BitVecVal(1, 5))), 8)] + pay[6:] + [0xFF, 0xFF]
    r0 = dec._decode(P_FAST, 3, w.src("a"), 255, TS, SymBytes(f0[::-1]), b"")
    r1 = dec._decode(P_FAST, 3, w.src("a"), 255, TS, SymBytes(f1[::-1]), b"")
    out.append(("first-frame-returned",) if r0 is not None else r1)
    # proprietary single-frame message with a matching definition (Lowrance temperature, PGN 65285)
    body = [0x8C, 0x98, 0x01, 0x02, 0x2A, 0x70, 0xFF, 0xFF]
    try:
        out.append(dec._decode(65285, 3, w.src("a"), 255, TS, bytes(body[::-1]), b""))
    except Exception as e:
        out.append(("raised", type(e).__name__))
    return out


@guarded
def _worker(histories):
    from . import explorer
    explorer.STATS.__init__()
    R = _G["R"]
    rep = Report(PID, _G["tier"], 0, "model_checking")
    w = World()
    sym = {"hseq": z3.BitVec("hseq", 3), "pseq": z3.BitVec("pseq", 3), "hbytes": [z3.BitVec("hb%d" % i, 8) for i in range(6)]}
    # "fresh sequence counter": different from every counter that occurs in the history, including the counter bits of truncated frames
    assume_all = w.assume + [sym["hseq"] != sym["pseq"]]
    states = trans = 0
    PQ = R.consts.PhysicalQuantities
    for hist in histories:
        # a 2-byte frame (control byte + length) is an accepted first frame: its counter bits are "used"; shorter frames are
        # rejected with an error or ignored and must leave no trace, whatever counter bits they carry
        assume = assume_all + ([z3.Extract(7, 5, sym["hbytes"][0]) != sym["pseq"]] if "trunc2" in hist else [])
        def snap(xs):
            # summaries are taken at once: a result must not change after it was returned (objects shared between
            # results - e.g. through a cache - would otherwise change on both sides of the comparison)
            return [x if isinstance(x, tuple) or x is None else ("SUMMARY", msg_summary(x)) for x in xs]

        def newdec():
            d_ = R.decoder.NMEA2000Decoder()
            if "claim_a_everywhere" in hist:
                feed(d_, w, "claim1", "a")       # a valid claim known to every decoder of the comparison
            return d_

        def h():
            ref0 = snap(probes(R, newdec(), w, sym))      # before any other instance has been used
            B = newdec()
            others = {"units": R.decoder.NMEA2000Decoder(preferred_units={PQ.ANGLE: "deg", PQ.TEMPERATURE: "C"}), "encoder": R.encoder.NMEA2000Encoder()}
            A = newdec()
            A2 = newdec()
            outA = snap([do_item(R, A, others, w, it, sym) for it in hist])
            outA2 = snap([do_item(R, A2, others, w, it, sym) for it in hist])
            pa_ = snap(probes(R, A, w, sym))
            pb_ = snap(probes(R, B, w, sym))
            C = newdec()
            pc_ = snap(probes(R, C, w, sym))
            defaults = [d_ for d_ in R.decoder.NMEA2000Decoder.__init__.__defaults__ if isinstance(d_, (list, dict))]
            return outA, outA2, pa_, pb_, pc_, all(len(d_) == 0 for d_ in defaults), ref0
        try:
            paths, ex = explore(h, max_paths=1024, assumptions=assume)
        except Unsupported as e:
            rep.inconc("history %r: %s" % (hist, e))
            continue
        states += len(paths)
        for pa in paths:
            def wit(m):
                return {"kind": "isolation", "history": list(hist), "sa": m.eval(w.sa, True).as_long(), "sb": m.eval(w.sb, True).as_long(),
                        "head": m.eval(w.head, True).as_long(), "soc": m.eval(w.soc, True).as_long(), "hseq": m.eval(sym["hseq"], True).as_long(),
                        "pseq": m.eval(sym["pseq"], True).as_long(), "hbytes": [m.eval(b, True).as_long() for b in sym["hbytes"]]}
            st0, m0 = satisfiable(z3.And(pa.cond(), *assume))
            if st0 != "sat":
                continue
            if pa.kind != "return":
                rep.violation({"kind": "isolation-raise"}, "harness path raised %r" % (pa.value,), wit(m0))
                continue
            outA, outA2, pa_, pb_, pc_, defaults_ok, ref0 = pa.value
            trans += len(hist) * 2 + 9
            if not defaults_ok:
                rep.violation({"kind": "defaults-mutated"}, "a constructor default (shared list/dict) was modified", wit(m0))
                continue

            def summ(x):
                if isinstance(x, tuple) and x and x[0] == "SUMMARY":
                    return x[1]
                if isinstance(x, tuple):
                    return x
                return msg_summary(x)
            cl = []
            for a, b, c, c0 in zip(pa_, pb_, pc_, ref0):
                cl.append(eq_any(summ(a), summ(c0)))
                cl.append(eq_any(summ(b), summ(c0)))
                cl.append(eq_any(summ(c), summ(c0)))
            for a, a2 in zip(outA, outA2):
                cl.append(eq_any(summ(a), summ(a2)))
            # a probe must be decoded at all by the fresh decoder (vacuity guard)
            if pc_[0] is None or pc_[1] is None or (isinstance(pc_[1], tuple) and pc_[1][0] != "SUMMARY"):
                rep.error("probe not decodable by a fresh decoder: harness broken")
                continue
            st, m = prove(z3.And(*cl), assume + pa.pc, label="isolation")
            if st == "sat":
                which = []
                for i, (a, b, c, c0) in enumerate(zip(pa_, pb_, pc_, ref0)):
                    if not z3.is_true(m.eval(eq_any(summ(a), summ(c0)), True)):
                        which.append("probe %d differs after the history" % i)
                    if not z3.is_true(m.eval(eq_any(summ(b), summ(c0)), True)):
                        which.append("probe %d differs on an untouched older instance" % i)
                    if not z3.is_true(m.eval(eq_any(summ(c), summ(c0)), True)):
                        which.append("probe %d differs on a new instance created after the history" % i)
                if not which:
                    which.append("same history, different results")
                rep.violation({"kind": "isolation", "what": which[0][:30]}, "history %r: %s" % (list(hist), "; ".join(which)), wit(m))
            elif st == "unknown":
                rep.inconc("isolation undecided for %r" % (hist,))
    if () in histories:
        states_, trans_ = _shared_config(R, rep, w, sym, assume_all)
        states += states_
        trans += trans_
    rep.sample({"histories": len(histories), "example": list(histories[0]) if histories else None})
    return dict(violations=rep.violations, inconclusive=rep.inconclusive, errors=rep.harness_errors, samples=rep.samples, stats=explorer.STATS, states=states, trans=trans)


CONFIGS = [("exclude_pgns", [60928, 127250]), ("include_pgns", [60928, 127250, 129029]), ("exclude_pgns", [60928, "vesselHeading"]),
           ("include_pgns", ["isoAddressClaim", 129029])]


def _shared_config(R, rep, w, sym, assume):
    """two decoders configured from the SAME caller-owned filter list: the second behaves like one given its own copy of the
    list, and the caller's list is left as it was (a decoder that edits or keeps editing the caller's list couples instances)"""
    states = trans = 0
    for ci, (kw, lst) in enumerate(CONFIGS):
        def h():
            ref = R.decoder.NMEA2000Decoder(**{kw: list(lst)})
            r0 = [None if x is None else msg_summary(x) for x in feed(ref, w, "claim1", "a") + probes(R, ref, w, sym)]
            L = list(lst)
            R.decoder.NMEA2000Decoder(**{kw: L})
            d2 = R.decoder.NMEA2000Decoder(**{kw: L})
            r2 = [None if x is None else msg_summary(x) for x in feed(d2, w, "claim1", "a") + probes(R, d2, w, sym)]
            return r0, r2, list(L)
        try:
            paths, ex = explore(h, max_paths=256, assumptions=assume)
        except Unsupported as e:
            rep.inconc("shared configuration %r: %s" % ((kw, lst), e))
            continue
        for pa in paths:
            st0, m0 = satisfiable(z3.And(pa.cond(), *assume))
            if st0 != "sat":
                continue
            states += 1
            trans += 8
            wit = {"kind": "shared-config", "config": ci, "sa": m0.eval(w.sa, True).as_long(), "sb": m0.eval(w.sb, True).as_long(), "head": m0.eval(w.head, True).as_long(),
                   "soc": m0.eval(w.soc, True).as_long(), "hseq": 0, "pseq": m0.eval(sym["pseq"], True).as_long(), "hbytes": [0] * 6, "history": []}
            if pa.kind != "return":
                rep.violation({"kind": "shared-config-raise"}, "decoders built from one caller-owned %s list: raised %r" % (kw, pa.value), wit)
                continue
            r0, r2, L = pa.value
            if L != list(lst):
                rep.violation({"kind": "shared-config-list"}, "constructing a decoder changed the caller's %s list %r into %r" % (kw, lst, L), wit)
                continue
            st, m = prove(z3.And(*[eq_any(a, b) for a, b in zip(r0, r2)]), assume + pa.pc, label="shared-config")
            if st == "sat":
                wit.update(sa=m.eval(w.sa, True).as_long(), sb=m.eval(w.sb, True).as_long(), head=m.eval(w.head, True).as_long(), soc=m.eval(w.soc, True).as_long(),
                           pseq=m.eval(sym["pseq"], True).as_long())
                rep.violation({"kind": "shared-config"}, "the second decoder built from one caller-owned %s list %r does not behave like a decoder given its own copy" % (kw, lst), wit)
            elif st == "unknown":
                rep.inconc("shared configuration %r undecided" % ((kw, lst),))
    return states, trans


def run(tier, seed):
    from . import explorer
    from .c01 import Harness
    rep = Report(PID, tier, seed, "model_checking")
    R = Harness().R
    _G.update(R=R, tier=tier)
    k = 2 if tier == "quick" else 3
    histories = [tuple(x) for n in range(0, k + 1) for x in itertools.product(ITEMS, repeat=n)]
    if tier == "quick":
        histories = [hh for hh in histories if len(hh) < 2 or hh[0] != hh[1]]
    rep.functions = ["decoder.NMEA2000Decoder.__init__", "decoder._decode", "decoder._decode_fast_message", "decoder._call_decode_function",
                     "decoder.decode_usb", "decoder.decode_yacht_devices_string", "encoder.NMEA2000Encoder.encode_ebyte/encode_usb", "message.apply_preferred_units"]
    rep.bounds = {"history": "every sequence of <= %d items over %d item kinds (symbolic bytes / counters inside the items)" % (k, len(ITEMS)),
                  "probes": "single-frame message (symbolic heading), complete fast-packet message (symbolic byte, fresh symbolic counter), proprietary message",
                  "instances": "A (history), A' (same history again), B (older, untouched), C (fresh), a decoder with unit preferences, an encoder"}
    rep.outside = ["histories longer than the bound", "histories containing an address claim from the probe's source (identity would legitimately differ)"]
    nproc = 16
    parts = run_jobs(rep, _worker, [histories[i::nproc] for i in range(nproc)], timeout_s=800)
    st = sum(p["states"] for p in parts if p and "states" in p)
    tr = sum(p["trans"] for p in parts if p and "trans" in p)
    rep.count("histories", len(histories))
    rep.coverage.update(states=max(1, st), transitions=max(1, tr), traces_validated_against_impl=0,
                        explanation="states = explored (history, path) pairs; transitions = inputs fed to the real decoders")
    rep.assumptions = ["the probe's fast-packet sequence counter differs from the one used in the history", "source addresses a and b differ"]
    return rep.finish(replay)


def replay(r):
    from .plain import plain
    N = plain()
    PQ = N.consts.PhysicalQuantities

    class W:
        pass
    head, soc = r["head"], r["soc"]

    def src(who):
        return r["sa"] if who == "a" else r["sb"]

    def single(dec, who):
        return dec._decode(P_SINGLE, 3, src(who), 255, TS, (bytes([1]) + head.to_bytes(2, "little") + bytes([0xFF, 0x7F, 0xFF, 0x7F, 0xFD]))[::-1], b"")

    def fast(dec, seq):
        pay = bytes([1, 0, soc, 0x64] + [0xFF] * 7)
        r0 = dec._decode(P_FAST, 3, src("a"), 255, TS, (bytes([seq << 5, 11]) + pay[:6])[::-1], b"")
        r1 = dec._decode(P_FAST, 3, src("a"), 255, TS, (bytes([(seq << 5) | 1]) + pay[6:] + b"\xff\xff")[::-1], b"")
        return ("first-frame-returned",) if r0 is not None else r1

    def plain_msg():
        return N.decoder.NMEA2000Decoder()._decode(P_SINGLE, 3, 9, 255, TS, bytes([1, 0x10, 0x27, 0xFF, 0x7F, 0xFF, 0x7F, 0xFD][::-1]), b"")

    def item(dec, others, it):
        try:
            hb = bytes(r["hbytes"])
            if it == "fast_first_other_seq":
                return dec._decode(P_FAST, 3, src("a"), 255, TS, (bytes([r["hseq"] << 5, 11]) + hb[:6])[::-1], b"")
            if it in ("trunc0", "trunc1", "trunc2"):
                return dec._decode(P_FAST, 3, src("a"), 255, TS, hb[:int(it[-1])][::-1], b"")
            if it == "trunc_single":
                return dec._decode(P_SINGLE, 3, src("a"), 255, TS, bytes([1, 2]), b"")
            if it == "unknown_pgn":
                return dec._decode(99999, 3, src("a"), 255, TS, bytes(8), b"")
            if it == "out_of_range":
                return dec._decode(P_SINGLE, 3, src("a"), 255, TS, bytes([1, 0xFE, 0xFF, 0, 0, 0, 0, 0xFD][::-1]), b"")
            if it == "bad_text":
                return dec.decode_yacht_devices_string("garbage line without structure")
            if it == "bad_usb":
                pk = bytearray(N.encoder.NMEA2000Encoder().encode_usb(plain_msg())[0])
                pk[19] ^= 0x5A
                return dec.decode_usb(bytes(pk))
            if it == "unmatched_multi":
                return dec._decode(65285, 3, src("a"), 255, TS, bytes([0xE5, 0x98, 0x10, 0, 0, 0, 0xFF, 0xFF][::-1]), b"")
            if it == "units_decoder_same_payload":
                single(others["units"], "a")
                fast(others["units"], 0)
                return None
            if it == "encoder_use":
                others["encoder"].encode_ebyte(plain_msg())
                return None
            if it == "claim_to_other_decoder":
                # NAME inside the ranges of its numeric fields (unique number 1234, Garmin, function 130, class 10, industry 4)
                name = 1234 | (229 << 21) | (130 << 40) | (10 << 49) | (4 << 60)
                others["units"]._decode(60928, 6, src("a"), 255, TS, name.to_bytes(8, "little")[::-1], b"")
                return None
            if it == "single_b":
                return single(dec, "b")
            if it == "claim_a_everywhere":
                return None
            if it == "bad_claim_a":
                return dec._decode(60928, 6, src("a"), 255, TS, BAD.to_bytes(8, "little")[::-1], b"")
        except Exception as e:
            return ("raised", type(e).__name__)

    def probes_(dec):
        out = [single(dec, "a"), fast(dec, r["pseq"])]
        try:
            out.append(dec._decode(65285, 3, src("a"), 255, TS, bytes([0x8C, 0x98, 0x01, 0x02, 0x2A, 0x70, 0xFF, 0xFF][::-1]), b""))
        except Exception as e:
            out.append(("raised", type(e).__name__))
        return out

    def summ(m):
        if m is None or isinstance(m, tuple):
            return m
        return (m.PGN, m.id, m.source, m.destination, m.priority, [(f.id, f.value, f.raw_value, f.unit_of_measurement) for f in m.fields],
                None if m.source_iso_name is None else m.source_iso_name.name, m.hash)
    GOOD = 1234 | (229 << 21) | (130 << 40) | (10 << 49) | (4 << 60)
    BAD = 4321 | (137 << 21) | (130 << 40) | (10 << 49) | (14 << 56) | (4 << 60)        # system instance 14: outside its range

    if r.get("kind") == "shared-config":
        kw, lst = CONFIGS[r["config"]]

        def run_(d_):
            return [summ(d_._decode(60928, 6, src("a"), 255, TS, GOOD.to_bytes(8, "little")[::-1], b""))] + [summ(x) for x in probes_(d_)]
        try:
            r0 = run_(N.decoder.NMEA2000Decoder(**{kw: list(lst)}))
            L = list(lst)
            N.decoder.NMEA2000Decoder(**{kw: L})
            r2 = run_(N.decoder.NMEA2000Decoder(**{kw: L}))
        except Exception as e:
            return True, "raised %r" % (e,)
        if L != list(lst):
            return True, "caller's list is now %r" % (L,)
        return r0 != r2, "own copy: %r; shared list, second decoder: %r" % (r0, r2)

    def newdec():
        d_ = N.decoder.NMEA2000Decoder()
        if "claim_a_everywhere" in r["history"]:
            d_._decode(60928, 6, src("a"), 255, TS, GOOD.to_bytes(8, "little")[::-1], b"")
        return d_
    ref0 = [summ(x) for x in probes_(newdec())]
    B = newdec()
    others = {"units": N.decoder.NMEA2000Decoder(preferred_units={PQ.ANGLE: "deg", PQ.TEMPERATURE: "C"}), "encoder": N.encoder.NMEA2000Encoder()}
    A, A2 = newdec(), newdec()
    oa = [summ(item(A, others, it)) for it in r["history"]]
    oa2 = [summ(item(A2, others, it)) for it in r["history"]]
    pa_, pb_ = [summ(x) for x in probes_(A)], [summ(x) for x in probes_(B)]
    pc_ = [summ(x) for x in probes_(newdec())]
    problems = []
    if oa != oa2:
        problems.append("same history gives %r and %r" % (oa, oa2))
    for i in range(3):
        if pa_[i] != ref0[i]:
            problems.append("probe %d after the history: %r, before anything else ran: %r" % (i, pa_[i], ref0[i]))
        if pb_[i] != ref0[i]:
            problems.append("probe %d on the older instance: %r, before: %r" % (i, pb_[i], ref0[i]))
        if pc_[i] != ref0[i]:
            problems.append("probe %d on a new instance: %r, before: %r" % (i, pc_[i], ref0[i]))
    dflt = [d for d in N.decoder.NMEA2000Decoder.__init__.__defaults__ if isinstance(d, (list, dict))]
    if any(len(d) for d in dflt):
        problems.append("constructor defaults modified")
    return bool(problems), "; ".join(problems[:2])[:600]
