"""Replay-DFS path explorer: the code under test is re-run from the start once per path; z3 decides
which side(s) of every symbolic branch are feasible under the path condition."""
import time
import z3


class Unsupported(BaseException):
    """the proxies cannot model an operation: the item is INCONCLUSIVE, never a pass"""


class PathAbort(BaseException):
    """the current path is infeasible / cut by an assumption"""


class FuelExhausted(BaseException):
    """loop fuel (unwinding bound) ran out on this path"""


_FP_MEMO = {}


def has_fp(t):
    """does the term mention floating-point / real sorts (memoised on ast ids; terms are kept alive in the memo)"""
    tid = t.get_id()
    r = _FP_MEMO.get(tid)
    if r is not None:
        return r[0]
    if len(_FP_MEMO) > 2000000:
        _FP_MEMO.clear()
    k = t.sort().kind()
    if k in (z3.Z3_FLOATING_POINT_SORT, z3.Z3_ROUNDING_MODE_SORT, z3.Z3_REAL_SORT):
        res = True
    else:
        res = False
        # iterative post-order with memo
        stack = [(t, iter(t.children()))]
        flag = {}
        while stack:
            node, it = stack[-1]
            adv = False
            for ch in it:
                cid = ch.get_id()
                m = _FP_MEMO.get(cid)
                if m is not None:
                    if m[0]:
                        flag[node.get_id()] = True
                    continue
                kk = ch.sort().kind()
                if kk in (z3.Z3_FLOATING_POINT_SORT, z3.Z3_ROUNDING_MODE_SORT, z3.Z3_REAL_SORT):
                    _FP_MEMO[cid] = (True, ch)
                    flag[node.get_id()] = True
                    continue
                stack.append((ch, iter(ch.children())))
                adv = True
                break
            if adv:
                continue
            stack.pop()
            nid = node.get_id()
            v = flag.get(nid, False)
            _FP_MEMO[nid] = (v, node)
            if v and stack:
                flag[stack[-1][0].get_id()] = True
        res = _FP_MEMO[tid][0]
    _FP_MEMO[tid] = (res, t)
    return res


class Stats:
    def __init__(self):
        self.paths = 0
        self.feas_queries = 0
        self.t_feas = 0.0
        self.obl = 0          # obligations asked
        self.unsat = 0
        self.sat = 0
        self.unknown = 0
        self.t_obl = 0.0
        self.cross = 0        # obligations re-decided by cvc5 (second opinion)
        self.cross_agree = 0
        self.cross_unknown = 0
        self.cross_disagree = []
        self.wit = 0          # reachability / witness queries (satisfiable())
        self.wit_sat = 0
        self.feas_unknown = 0  # branch-feasibility queries without an answer (branch then explored as if feasible)
        self.shapes = set()

    def merge(self, o):
        for k in ("paths", "feas_queries", "t_feas", "obl", "unsat", "sat", "unknown", "t_obl", "wit", "wit_sat", "cross", "cross_agree", "cross_unknown", "feas_unknown"):
            setattr(self, k, getattr(self, k, 0) + getattr(o, k, 0))
        self.cross_disagree += o.cross_disagree
        self.shapes |= o.shapes

    def as_dict(self):
        return dict(paths=self.paths, feasibility_queries=self.feas_queries,
                    obligations=self.obl, unsat=self.unsat, sat=self.sat, unknown=self.unknown,
                    witness_queries=self.wit, witnesses_found=self.wit_sat, feasibility_unknown_explored_as_feasible=self.feas_unknown,
                    cvc5_cross_checked=self.cross, cvc5_agree=self.cross_agree, cvc5_no_answer=self.cross_unknown,
                    cvc5_disagree=len(self.cross_disagree),
                    distinct_query_shapes=len(self.shapes),
                    solver_s=round(self.t_feas + self.t_obl, 3))


STATS = Stats()
DEADLINE = [None]     # absolute wall-clock limit of the whole check (set by the CLI)


class Timeout(Unsupported):
    pass


def check_deadline():
    if DEADLINE[0] is not None and time.time() > DEADLINE[0]:
        raise Timeout("wall-clock budget of the check exhausted")


class Explorer:
    def __init__(self, fuel=20000, max_paths=None, fp_feasibility=False, assumptions=()):
        self.solver = z3.Solver()
        self.solver.set("timeout", 20000)
        self.decisions = []   # [choice, n_alternatives_left]  choice is an int index
        self.pos = 0
        self.pc = []
        self.deferred = []    # (guard term, exception) raised-later list
        self.fuel0 = fuel
        self.fuel = fuel
        self.max_paths = max_paths
        self.fp_feasibility = fp_feasibility
        self.base = list(assumptions)   # global assumptions (always in force)
        self.trace = []       # free-form per-path log used by harnesses
        self.npaths = 0
        self.truncated = False
        self._synced = 0
        self._synced_ids = []
        self._base_added = False
        self._keep = []

    # -- solver helpers
    def _sync(self):
        """keep one solver frame per path-condition entry (incremental: only the new suffix is added)"""
        n = self._synced
        if n > len(self.pc) or [x.get_id() for x in self._synced_ids[:n]] != [p.get_id() for p in self.pc[:n]]:
            # different path: find common prefix
            k = 0
            while k < min(n, len(self.pc)) and self._synced_ids[k].get_id() == self.pc[k].get_id():
                k += 1
            for _ in range(n - k):
                self.solver.pop()
            del self._synced_ids[k:]
            n = k
        for p in self.pc[n:]:
            self.solver.push()
            if self.fp_feasibility or not has_fp(p):
                self.solver.add(p)
            self._synced_ids.append(p)   # the term itself: keeps its ast id alive
        self._synced = len(self.pc)

    def _check(self, *extra, unknown_ok=False):
        STATS.feas_queries += 1
        t = time.time()
        if not self._base_added:
            for p in self.base:
                self.solver.add(p)
            self._base_added = True
        self._sync()
        self.solver.push()
        for e in extra:
            self.solver.add(e)
        r = self.solver.check()
        self.solver.pop()
        STATS.t_feas += time.time() - t
        if r == z3.unknown:
            if unknown_ok:
                # a branch whose feasibility the solver cannot decide in time is explored as if feasible: obligations on an
                # infeasible path are vacuous, and a counterexample still needs a model of the whole path condition
                STATS.feas_unknown += 1
                return True
            raise Unsupported("feasibility query unknown")
        return r == z3.sat

    def model_for(self, *extra):
        s = z3.Solver()
        s.set("timeout", 60000)
        for p in self.base:
            s.add(p)
        for e in extra:
            s.add(e)
        r = s.check()
        m = s.model() if r == z3.sat else None
        return r, m

    # -- branching
    def _decide(self, n_feasible_fn):
        """common replay logic; n_feasible_fn() -> list of feasible option indices (in canonical order)"""
        check_deadline()
        if self.pos < len(self.decisions):
            d = self.decisions[self.pos]
        else:
            opts = n_feasible_fn()
            if not opts:
                raise PathAbort("no feasible option")
            d = [opts, 0]
            self.decisions.append(d)
        self.pos += 1
        return d[0][d[1]]

    def branch(self, cond):
        c = z3.simplify(cond)
        if z3.is_true(c):
            return True
        if z3.is_false(c):
            return False

        def opts():
            if has_fp(c) and not self.fp_feasibility:
                return [True, False]
            o = []
            if self._check(c, unknown_ok=True):
                o.append(True)
            if self._check(z3.Not(c), unknown_ok=True):
                o.append(False)
            return o
        d = self._decide(opts)
        self.pc.append(c if d else z3.Not(c))
        return d

    def choose(self, n, label=None):
        """non-deterministic choice among n options enumerated by the explorer (schedules, kinds)"""
        d = self._decide(lambda: list(range(n)))
        return d

    def assume(self, cond):
        c = z3.simplify(cond) if not isinstance(cond, bool) else z3.BoolVal(cond)
        if z3.is_true(c):
            return
        if z3.is_false(c) or not self._check(c):
            raise PathAbort("assumption infeasible")
        self.pc.append(c)

    def concretize(self, term, signed=True, maxbits=13):
        """fork over every feasible value of a bit-vector term in ascending order (canonical)"""
        t = z3.simplify(term)
        if z3.is_bv_value(t):
            return t.as_signed_long() if signed else t.as_long()

        def opts():
            w = t.size()
            vals = []
            lo_all = -(1 << (w - 1)) if signed else 0
            hi_all = (1 << (w - 1)) - 1 if signed else (1 << w) - 1
            le = (lambda a, b: a <= b) if signed else z3.ULE
            ge = (lambda a, b: a >= b) if signed else z3.UGE
            cur = lo_all
            while True:
                if not self._check(ge(t, z3.BitVecVal(cur, w))):
                    break
                lo, hi = cur, hi_all
                while lo < hi:
                    mid = (lo + hi) // 2
                    if self._check(ge(t, z3.BitVecVal(cur, w)), le(t, z3.BitVecVal(mid, w))):
                        hi = mid
                    else:
                        lo = mid + 1
                vals.append(lo)
                if len(vals) > (1 << maxbits):
                    raise Unsupported("concretisation domain too wide")
                if lo == hi_all:
                    break
                cur = lo + 1
            return vals
        v = self._decide(opts)
        self.pc.append(t == z3.BitVecVal(v, t.size()))
        return v

    def tick(self):
        self.fuel -= 1
        if self.fuel < 0:
            raise FuelExhausted()

    # -- driver
    def paths(self, fn):
        """run fn() once per feasible path; yields Path objects"""
        while True:
            self.pos = 0
            self.pc = []
            self.deferred = []
            self.trace = []
            self.fuel = self.fuel0
            kind, val = None, None
            try:
                val = fn()
                kind = "return"
            except PathAbort:
                kind = "abort"
            except FuelExhausted:
                kind = "fuel"
            except Unsupported:
                raise
            except Exception as e:       # the code under test raised
                kind, val = "raise", e
            if kind != "abort":
                self.npaths += 1
                STATS.paths += 1
                yield Path(list(self.pc), kind, val, list(self.deferred), list(self.trace),
                           [d[0][d[1]] for d in self.decisions[:self.pos]])
            # advance to next alternative
            del self.decisions[self.pos:]
            while self.decisions and self.decisions[-1][1] + 1 >= len(self.decisions[-1][0]):
                self.decisions.pop()
            if not self.decisions:
                return
            self.decisions[-1][1] += 1
            if self.max_paths is not None and self.npaths >= self.max_paths:
                self.truncated = True
                return


class Path:
    def __init__(self, pc, kind, value, deferred, trace, decisions):
        self.pc = pc
        self.kind = kind
        self.value = value
        self.deferred = deferred
        self.trace = trace
        self.decisions = decisions

    def cond(self):
        return z3.And(*self.pc) if self.pc else z3.BoolVal(True)

    def raise_cond(self):
        gs = [g for g, _ in self.deferred]
        return z3.Or(*gs) if gs else z3.BoolVal(False)


# current explorer (a stack: kernels are summarised in nested explorers)
_STACK = []


def EX():
    if not _STACK:
        raise Unsupported("symbolic branch outside an exploration")
    return _STACK[-1]


def explore(fn, **kw):
    ex = Explorer(**kw)
    _STACK.append(ex)
    try:
        return list(ex.paths(fn)), ex
    finally:
        _STACK.pop()


def explore_iter(fn, **kw):
    ex = Explorer(**kw)
    _STACK.append(ex)
    try:
        for p in ex.paths(fn):
            yield p, ex
    finally:
        _STACK.pop()


# ------------------------------------------------------------------ obligations
def prove(claim, assumptions=(), timeout_ms=60000, label=None):
    """decide `assumptions => claim` : returns ("unsat", None) if it holds for every value,
    ("sat", model) with a counterexample, or ("unknown", reason)."""
    s = z3.Solver()
    s.set("timeout", timeout_ms)
    for a in assumptions:
        s.add(a)
    s.add(z3.Not(claim))
    t = time.time()
    r = s.check()
    dt = time.time() - t
    STATS.obl += 1
    STATS.t_obl += dt
    if label:
        if CROSS[0] and label not in STATS.shapes and r != z3.unknown:
            _cross_check(s, r, label)
        STATS.shapes.add(label)
    if r == z3.unsat:
        STATS.unsat += 1
        return "unsat", None
    if r == z3.sat:
        STATS.sat += 1
        return "sat", s.model()
    STATS.unknown += 1
    return "unknown", s.reason_unknown()


CROSS = [False]       # thorough tier: the first obligation of every distinct shape is re-decided by cvc5


def _cross_check(solver, z3_result, label):
    import subprocess
    import tempfile
    import os
    txt = "(set-logic ALL)\n" + solver.sexpr() + "\n(check-sat)\n"
    if len(txt) > 2000000:
        return
    fd, path = tempfile.mkstemp(suffix=".smt2")
    try:
        with os.fdopen(fd, "w") as f:
            f.write(txt)
        try:
            out = subprocess.run(["cvc5", "--tlimit=20000", path], capture_output=True, text=True, timeout=30).stdout.strip().splitlines()
        except Exception:
            out = []
        ans = out[-1] if out else "unknown"
        STATS.cross += 1
        want = "unsat" if z3_result == z3.unsat else "sat"
        if ans == want:
            STATS.cross_agree += 1
        elif ans in ("sat", "unsat"):
            STATS.cross_disagree.append("%s: z3 %s, cvc5 %s" % (label, want, ans))
        else:
            STATS.cross_unknown += 1
    finally:
        try:
            os.remove(path)
        except OSError:
            pass


def satisfiable(cond, assumptions=(), timeout_ms=60000):
    """reachability witness / model search: returns (status, model); counted separately from proof obligations"""
    s = z3.Solver()
    s.set("timeout", timeout_ms)
    for a in assumptions:
        s.add(a)
    s.add(cond)
    t = time.time()
    r = s.check()
    STATS.wit += 1
    STATS.t_obl += time.time() - t
    if r == z3.sat:
        STATS.wit_sat += 1
        return "sat", s.model()
    if r == z3.unsat:
        return "unsat", None
    return "unknown", None
