"""Contract models of C-level library functions the repository calls on symbolic data
(datetime.date/time/timedelta, struct).  Each falls through to the real thing on concrete arguments."""
import datetime as _dt
import struct as _struct
import z3
from .explorer import EX, Unsupported
from .proxies import (SymInt, SymFloat, SymBool, SymOpt, SymBytes, truth, register_symbolic, f32bits_to_f64,
                      f64_to_f32bits, is_symbolic)
from . import proxies as P

EPOCH_ORD = _dt.date(1970, 1, 1).toordinal()
MIN_ORD, MAX_ORD = 1, _dt.date.max.toordinal()


class SymTimedelta:
    def __init__(self, days):
        self.days = days

    def __radd__(self, o):
        if isinstance(o, _dt.date) and not isinstance(o, _dt.datetime):
            return SymDate.from_ordinal(self.days + o.toordinal())
        return NotImplemented

    def total_seconds(self):
        raise Unsupported("total_seconds of symbolic timedelta")


def sx_timedelta(*a, **k):
    vals = list(a) + list(k.values())
    if not any(is_symbolic(v) for v in vals):
        return _dt.timedelta(*a, **k)
    if a or set(k) != {"days"}:
        raise Unsupported("timedelta with symbolic %r" % (sorted(k),))
    d = k["days"]
    if isinstance(d, SymOpt):
        d = d._force()
    if isinstance(d, SymFloat):
        raise Unsupported("timedelta(days=<symbolic float>)")
    if bool((d > 999999999) | (d < -999999999)):
        raise OverflowError("days=%s; must have magnitude <= 999999999")
    return SymTimedelta(d)


class SymDate:
    """a date given by its (symbolic) proleptic ordinal"""

    def __init__(self, ordinal):
        self.ordinal = ordinal

    @staticmethod
    def from_ordinal(o):
        if bool((o < MIN_ORD) | (o > MAX_ORD)):
            raise OverflowError("date value out of range")
        return SymDate(o)

    def days_since_epoch(self):
        return self.ordinal - EPOCH_ORD

    def _civil(self):
        """(year, month, day) of the proleptic Gregorian ordinal as terms over it (days-to-civil, all divisors constant)"""
        z = self.ordinal + 305                     # days since 0000-03-01
        era = z // 146097
        doe = z - era * 146097
        yoe = (doe - doe // 1460 + doe // 36524 - doe // 146096) // 365
        doy = doe - (365 * yoe + yoe // 4 - yoe // 100)
        mp = (5 * doy + 2) // 153
        d = doy - (153 * mp + 2) // 5 + 1
        m = P.ite(P._bt(mp < 10), mp + 3, mp - 9)
        y = yoe + era * 400 + P.ite(P._bt(m <= 2), 1, 0)
        return y, m, d

    @property
    def year(self):
        return self._civil()[0]

    @property
    def month(self):
        return self._civil()[1]

    @property
    def day(self):
        return self._civil()[2]

    def __sub__(self, o):
        if isinstance(o, _dt.date):
            return SymTimedelta(self.ordinal - o.toordinal())
        if isinstance(o, SymDate):
            return SymTimedelta(self.ordinal - o.ordinal)
        return NotImplemented

    def __sx_ite__(self, c, other):
        if isinstance(other, SymDate):
            return SymDate(P.ite(c, self.ordinal, other.ordinal))
        if isinstance(other, _dt.date):
            return SymDate(P.ite(c, self.ordinal, other.toordinal()))
        raise Unsupported("merge date with %r" % type(other))

    def __sx_isinstance__(self, cls):
        return P._cls_accepts(cls, _dt.date)

    def concrete(self, model):
        return _dt.date.fromordinal(P.ev(model, self.ordinal))

    def __repr__(self):
        return "SymDate(%r)" % (self.ordinal,)


class SymTime:
    def __init__(self, hour, minute, second):
        self.hour, self.minute, self.second = hour, minute, second
        self.microsecond = 0

    def __sx_ite__(self, c, other):
        if isinstance(other, (SymTime, _dt.time)):
            return SymTime(P.ite(c, self.hour, other.hour), P.ite(c, self.minute, other.minute),
                           P.ite(c, self.second, other.second))
        raise Unsupported("merge time with %r" % type(other))

    def __sx_isinstance__(self, cls):
        return P._cls_accepts(cls, _dt.time)

    def seconds(self):
        return self.hour * 3600 + self.minute * 60 + self.second

    def concrete(self, model):
        return _dt.time(P.ev(model, self.hour), P.ev(model, self.minute), P.ev(model, self.second))

    def __repr__(self):
        return "SymTime(%r,%r,%r)" % (self.hour, self.minute, self.second)


def sx_time(hour=0, minute=0, second=0, microsecond=0, *a, **k):
    if not any(is_symbolic(v) for v in (hour, minute, second, microsecond)):
        return _dt.time(hour, minute, second, microsecond, *a, **k)
    if microsecond != 0 or a or k:
        raise Unsupported("time() with extra arguments")
    for v, hi, nm in ((hour, 23, "hour"), (minute, 59, "minute"), (second, 59, "second")):
        if is_symbolic(v) and bool((v < 0) | (v > hi)):
            raise ValueError("%s must be in 0..%d" % (nm, hi))
    return SymTime(hour, minute, second)


class _DateNS:
    def __call__(self, *a, **k):
        return _dt.date(*a, **k)

    def __instancecheck__(self, inst):
        return isinstance(inst, (_dt.date, SymDate))

    def __or__(self, o):
        return _dt.date | o

    def __ror__(self, o):
        return o | _dt.date

    min = _dt.date.min
    max = _dt.date.max


class _TimeNS:
    def __call__(self, *a, **k):
        return sx_time(*a, **k)

    def __instancecheck__(self, inst):
        return isinstance(inst, (_dt.time, SymTime))

    def __or__(self, o):
        return _dt.time | o

    def __ror__(self, o):
        return o | _dt.time


sx_date = _DateNS()
sx_time_ns = _TimeNS()
register_symbolic(SymDate, SymTime, SymTimedelta)

_old_ite = P.ite


def _ite(c, a, b):
    if hasattr(a, "__sx_ite__"):
        return a.__sx_ite__(c, b)
    if hasattr(b, "__sx_ite__"):
        return b.__sx_ite__(z3.Not(c), a)
    if isinstance(a, _dt.time) and isinstance(b, _dt.time):
        return a if a == b else SymTime(a.hour, a.minute, a.second).__sx_ite__(c, b)
    if isinstance(a, _dt.date) and isinstance(b, _dt.date) and not isinstance(a, _dt.datetime) and not isinstance(b, _dt.datetime):
        return a if a == b else SymDate(a.toordinal()).__sx_ite__(c, b)
    return _old_ite(c, a, b)


P.ite = _ite
_old_real = P._real_cls


def _real_cls(cls):
    if cls is sx_date:
        return _dt.date
    if cls is sx_time_ns:
        return _dt.time
    return _old_real(cls)


P._real_cls = _real_cls
_old_is = P._sx_is


def _sx_is(a, b):
    if b is None and isinstance(a, (SymDate, SymTime)):
        return False
    return _old_is(a, b)


P._sx_is = _sx_is
P._sx_is_not = lambda a, b: P.sym_not(P._sx_is(a, b))


# ---------------------------------------------------------------- struct
class SymPacked:
    def __init__(self, fmt, bits):
        self.fmt = fmt
        self.bits = bits     # z3 BV 32


class _Struct:
    error = _struct.error

    def pack(self, fmt, *vals):
        if not any(is_symbolic(v) for v in vals):
            return _struct.pack(fmt, *vals)
        if fmt == "<I" and len(vals) == 1 and isinstance(vals[0], SymInt):
            v = vals[0]
            if bool((v < 0) | (v > 0xFFFFFFFF)):
                raise _struct.error("argument out of range")
            t = v.ext(33) if v.w <= 33 else z3.Extract(32, 0, v.t)
            return SymPacked("I", z3.Extract(31, 0, t))
        if fmt == "<f" and len(vals) == 1:
            v = vals[0]
            if isinstance(v, SymOpt):
                v = v._force()
            x = P.to_float(v)
            f32, bits = f64_to_f32bits(x)
            # struct.pack('<f') raises OverflowError when a finite double rounds to infinity
            if bool(SymBool(z3.And(z3.fpIsInf(f32), z3.Not(z3.fpIsInf(x.t))))):
                raise OverflowError("float too large to pack with f format")
            return SymPacked("f", bits)
        raise Unsupported("struct.pack %r on symbolic data" % fmt)

    def unpack(self, fmt, data):
        if not isinstance(data, SymPacked):
            return _struct.unpack(fmt, data)
        if fmt == "<f":
            return (f32bits_to_f64(data.bits),)
        if fmt == "<I":
            return (SymInt(z3.ZeroExt(1, data.bits)),)
        raise Unsupported("struct.unpack %r on symbolic data" % fmt)


sx_struct = _Struct()


class _MathExact:
    """the `math` module for instrumented code: degrees/radians of a symbolic binary64 are what CPython computes
    (x * (180.0 / pi), x * (pi / 180.0): one correctly rounded multiplication by a constant); everything else is the real module"""

    def degrees(self, x):
        import math
        from .proxies import SymFloat, SymOpt
        if isinstance(x, SymOpt):
            x = x._force()
        if isinstance(x, SymInt):
            x = SymFloat.lift(x)
        if isinstance(x, SymFloat):
            return SymFloat(z3.fpMul(z3.RNE(), x.t, z3.FPVal(180.0 / math.pi, z3.FPSort(11, 53))))
        return math.degrees(x)

    def radians(self, x):
        import math
        from .proxies import SymFloat, SymOpt
        if isinstance(x, SymOpt):
            x = x._force()
        if isinstance(x, SymInt):
            x = SymFloat.lift(x)
        if isinstance(x, SymFloat):
            return SymFloat(z3.fpMul(z3.RNE(), x.t, z3.FPVal(math.pi / 180.0, z3.FPSort(11, 53))))
        return math.radians(x)

    def __getattr__(self, k):
        import math
        return getattr(math, k)


def install(utils_mod):
    """rebind the names utils.py uses"""
    g = utils_mod.__dict__
    if "math" in g:
        g["math"] = _MathExact()
    g["timedelta"] = sx_timedelta
    g["date"] = sx_date
    g["time"] = sx_time_ns
    g["struct"] = sx_struct
