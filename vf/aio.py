"""Virtual-time asyncio harness for the gateway clients: the real asyncio.SelectorEventLoop with a selector stub
that never blocks and advances a virtual clock, scripted transports, loop-fuel livelock detection.
The explorer (vf.explorer) enumerates the behaviour of the environment: every `choose` is a fork."""
import asyncio
import selectors

from . import loader
from .explorer import EX, Unsupported, PathAbort

FUEL_LIMIT = 20000


class Livelock(BaseException):
    pass


class Env:
    """per-run bookkeeping shared by the stubs"""

    def __init__(self):
        self.fuel = 0
        self.livelock = False
        self.steps = 0
        self.on_step = None


ENV = [Env()]


def _tick_hook():
    e = ENV[0]
    e.fuel += 1
    if e.fuel > FUEL_LIMIT:
        e.livelock = True
        raise Livelock()


class FakeSelector(selectors.BaseSelector):
    def __init__(self, ref):
        self.ref = ref
        self._map = {}

    def register(self, f, e, d=None):
        k = selectors.SelectorKey(f, f if isinstance(f, int) else f.fileno(), e, d)
        self._map[k.fd] = k
        return k

    def unregister(self, f):
        return self._map.pop(f if isinstance(f, int) else f.fileno())

    def modify(self, f, e, d=None):
        return self.register(f, e, d)

    def select(self, timeout=None):
        env = ENV[0]
        env.fuel = 0
        env.steps += 1
        loop = self.ref[0]
        if env.on_step is not None:
            env.on_step(loop)
        if timeout is None:
            raise Deadlock()
        if timeout > 0:
            loop.vtime += timeout
        return []

    def get_map(self):
        return self._map

    def close(self):
        pass


class Deadlock(BaseException):
    """the loop would block forever: nothing scheduled"""


class VLoop(asyncio.SelectorEventLoop):
    def __init__(self):
        self.vtime = 0.0
        ref = [None]
        super().__init__(FakeSelector(ref))
        ref[0] = self

    def time(self):
        return self.vtime

    def _write_to_self(self):
        pass


class FakeWriter:
    """StreamWriter stand-in: records writes; drain() suspends or not as the script says; a write may fail"""

    def __init__(self, log, conn_id, script=None):
        self.log = log
        self.conn_id = conn_id
        self.closed = False
        self.script = script or {}
        self.nwrites = 0
        self.death = self.script.get("death")     # exception the connection was lost with (connection_lost(exc))

    def write(self, b):
        self.nwrites += 1
        fail_at = self.script.get("write_error_at")
        if fail_at is not None and self.nwrites == fail_at:
            mk = self.script.get("write_error_exc") or (lambda: ConnectionResetError("write failed"))
            self.death = mk()
            if self.script.get("error_in") == "drain":
                self.log.append((self.conn_id, bytes(b)))
                self.drain_error = self.death          # the write is accepted, the following drain() reports the failure
                return
            raise self.death
        if self.closed:
            raise ConnectionResetError("write on closed transport")
        self.log.append((self.conn_id, bytes(b)))

    async def drain(self):
        if getattr(self, "drain_error", None) is not None:
            e, self.drain_error = self.drain_error, None
            raise e
        f = self.script.get("drain")
        d = f(self) if f is not None else None
        if d:
            # flow control: the transport's buffer is above the high-water mark - for a moment, or for several seconds
            await asyncio.sleep(d if isinstance(d, float) else 0)

    def close(self):
        self.closed = True

    def is_closing(self):
        return self.closed

    async def wait_closed(self):
        # a real transport reports connection_lost in a later loop iteration than close(): wait_closed() suspends at least once
        # (seeded C14-i needs close() to run inside that window); the script may make the peer slow to acknowledge ("close_delay")
        await asyncio.sleep(self.script.get("close_delay", 0))
        # asyncio.StreamWriter.wait_closed re-raises the exception the connection was lost with
        if self.death is not None:
            raise self.death
        return None

    def get_extra_info(self, k, default=None):
        return default


class AsyncioShim:
    """stands in for the `asyncio` module inside the instrumented ioclient: open_connection is scripted"""

    def __init__(self, open_connection):
        self.open_connection = open_connection

    def __getattr__(self, k):
        return getattr(asyncio, k)


class SerialShim:
    def __init__(self, open_serial_connection):
        self.open_serial_connection = open_serial_connection
        import serial_asyncio
        self.serial = serial_asyncio.serial


WAITS = []          # the wait strategies the client handed to tenacity (most recent last)


def install(R, open_connection):
    R.ioclient.asyncio = AsyncioShim(open_connection)
    real_retrying = getattr(R.ioclient, "_vf_real_AsyncRetrying", None) or R.ioclient.AsyncRetrying
    R.ioclient._vf_real_AsyncRetrying = real_retrying

    def retrying(*a, **k):
        if "wait" in k:
            WAITS.append(k["wait"])
        return real_retrying(*a, **k)
    R.ioclient.AsyncRetrying = retrying

    async def open_serial_connection(**kw):
        return await open_connection("serial", 0)
    R.ioclient.serial_asyncio = SerialShim(open_serial_connection)
    loader.TICK_HOOK[0] = _tick_hook


def run(main_coro_fn, max_steps=200000):
    """run one scenario to completion on a fresh virtual loop; returns (result | exception, env)"""
    env = Env()
    ENV[0] = env
    loop = VLoop()
    asyncio.set_event_loop(loop)
    try:
        try:
            res = loop.run_until_complete(main_coro_fn(loop))
        except (Livelock, Deadlock) as e:
            res = e
        except Exception as e:           # the scenario itself ended with an exception of the code under test
            res = e
        # let cancelled tasks finish
        pending = [t for t in asyncio.all_tasks(loop) if not t.done()]
        for t in pending:
            t.cancel()
        if pending:
            try:
                loop.run_until_complete(asyncio.gather(*pending, return_exceptions=True))
            except BaseException:
                pass
        return res, env
    finally:
        try:
            loop.close()
        except BaseException:
            pass
        asyncio.set_event_loop(None)


CLIENTS = ("ebyte", "actisense", "yacht", "waveshare")


def make_client(R, kind, **kw):
    io = R.ioclient
    if kind == "ebyte":
        return io.EByteNmea2000Gateway("host", 1, **kw)
    if kind == "actisense":
        return io.ActisenseNmea2000Gateway("host", 1, **kw)
    if kind == "yacht":
        return io.YachtDevicesNmea2000Gateway("host", 1, **kw)
    if kind == "waveshare":
        return io.WaveShareNmea2000Gateway("/dev/null", **kw)
    raise ValueError(kind)


def sample_packets(N, kind, srcs=(1, 2, 3)):
    """valid packets (PGN 127250 from different sources) in the wire format the client of `kind` receives"""
    from datetime import datetime
    dec = N.decoder.NMEA2000Decoder()
    enc = N.encoder.NMEA2000Encoder()
    out = []
    for s in srcs:
        m = dec._decode(127250, 2, s, 255, datetime(2020, 1, 1), bytes([s, 0x10, 0x27, 0xFF, 0x7F, 0xFF, 0x7F, 0xFD][::-1]), b"")
        if kind == "ebyte":
            out.append(enc.encode_ebyte(m)[0])
        elif kind == "waveshare":
            out.append(enc.encode_usb(m)[0])
        elif kind == "yacht":
            out.append(b"00:00:00.000 R " + enc.encode_yacht_devices(m)[0])
        else:
            out.append(("A000000.000 " + enc.encode_actisense(m) + "\r\n").encode())
    return out
