"""C14 - close() is final and status notifications are faithful.
One composite session per client (refused attempt -> retry wait -> slow handshake -> packets with a slow receive
callback -> a send whose drain suspends -> EOF -> reconnect) runs on the virtual loop; the explorer injects close()
at EVERY event-loop step of that session, for a status callback that succeeds, raises, or is slow.  Predicates:
after close() is called the state is CLOSED at every later step and no new connection is opened; after it returns
no receive callback runs, every transport is closed and no client task is left after a grace period; notifications
are exactly the state changes, in order, never twice the same."""
import asyncio

from . import loader, aio
from .common import Report, guarded, run_jobs
from .explorer import EX, Unsupported, explore_iter

PID = "C14"
_G = {}
CB = ("ok", "raises", "slow", "very_slow", "closes", "rx_closes")
SESSION_END = 9.0
GRACE = 11.0


def scenario(R, N, kind, cb_kind, close_step, call_connect_after=True, shape="A"):
    pkts = aio.sample_packets(N, kind, srcs=(1, 2, 3, 4, 5, 6))
    tr = {"conns": [], "states": [], "got": [], "writers": [], "state_seq": [], "close_called": None, "close_returned": None,
          "bad_state_after_close": None, "open_after_close": 0, "cb_after_close": 0, "steps": 0, "pending_after_grace": []}

    async def main(loop):
        async def open_connection(host, port):
            i = len(tr["conns"])
            tr["conns"].append(loop.time())
            if tr["close_called"] is not None:
                tr["open_after_close"] += 1
            if shape == "B":
                # second session shape: immediate connection, a send whose write fails, a reset while reading, then a healthy link
                r = asyncio.StreamReader()
                script = {"drain": lambda w_: False}
                if i == 0:
                    script["write_error_at"] = 2 if kind == "waveshare" else 1
                w = aio.FakeWriter([], i, script)
                tr["writers"].append(w)
                if i == 0:
                    loop.call_later(0.3, r.feed_data, pkts[0])
                elif i == 1:
                    loop.call_later(0.2, r.feed_data, pkts[1])
                    loop.call_later(0.7, r.set_exception, ConnectionResetError("reset by peer"))
                    w.death = None
                else:
                    loop.call_later(0.3, r.feed_data, pkts[2])
                w.opened_after_close = tr["close_called"] is not None
                return r, w
            if i == 0:
                raise ConnectionRefusedError("refused")
            await asyncio.sleep(0.2)                      # a handshake that takes time: connect is "in flight"
            r = asyncio.StreamReader()
            w = aio.FakeWriter([], i, {"drain": lambda w_: True})
            tr["writers"].append(w)
            if i == 1:
                loop.call_later(0.3, r.feed_data, pkts[0])
                loop.call_later(0.6, r.feed_data, pkts[1][:5])         # mid-packet
                loop.call_later(0.9, r.feed_data, pkts[1][5:])
                loop.call_later(2.5, r.feed_eof)
            else:
                loop.call_later(0.3, r.feed_data, pkts[2])
            w.opened_after_close = tr["close_called"] is not None
            return r, w
        aio.install(R, open_connection)
        c = aio.make_client(R, kind)
        tr["client"] = c

        async def rx(m):
            if tr["close_returned"] is not None:
                tr["cb_after_close"] += 1
            tr["got"].append(m.source)
            if cb_kind == "rx_closes" and tr["close_called"] is None:
                await do_close()                          # the application closes the client from inside its receive callback
            await asyncio.sleep(0.4)                      # slow receive callback

        async def st(s):
            tr["states"].append(s.name)
            if cb_kind == "raises":
                raise RuntimeError("status callback failed")
            if cb_kind == "slow":
                await asyncio.sleep(0.3)
            if cb_kind == "very_slow":
                await asyncio.sleep(2.5)
            if cb_kind == "closes" and s.name == "CONNECTED" and tr["close_called"] is None:
                await do_close()
        c.set_receive_callback(rx)
        c.set_status_callback(st)
        harness_tasks = set()

        async def do_close():
            tr["close_called"] = loop.time()
            try:
                await c.close()
            finally:
                tr["close_returned"] = loop.time()     # close() may end by cancellation when it is called from one of the client's own tasks

        def on_step(lp):
            tr["steps"] += 1
            cur = c._state.name
            if not tr["state_seq"] or tr["state_seq"][-1] != cur:
                tr["state_seq"].append(cur)
            if tr["close_called"] is not None and cur != "CLOSED" and tr["bad_state_after_close"] is None:
                tr["bad_state_after_close"] = (lp.time(), cur)
            if close_step is not None and tr["steps"] == close_step and tr["close_called"] is None:
                harness_tasks.add(asyncio.ensure_future(do_close()))
        aio.ENV[0].on_step = on_step

        async def sender():
            await asyncio.sleep(1.6 if shape == "A" else 1.0)
            msg = N.decoder.NMEA2000Decoder()._decode(127250, 2, 9, 255, None, bytes([9, 0x10, 0x27, 0xFF, 0x7F, 0xFF, 0x7F, 0xFD][::-1]), b"")
            await c.send(msg)
        harness_tasks.add(asyncio.ensure_future(sender()))
        harness_tasks.add(asyncio.ensure_future(c.connect()))
        if shape == "B":
            harness_tasks.add(asyncio.ensure_future(c.connect()))      # a second connect() call while the first is in flight
        await asyncio.sleep(SESSION_END)
        if tr["close_called"] is None:
            tr["total_steps"] = tr["steps"]
            await do_close()
        if call_connect_after:
            await c.connect()                              # a connect call after close must not do anything
            await c.send(N.decoder.NMEA2000Decoder()._decode(127250, 2, 9, 255, None, bytes([9, 0x10, 0x27, 0xFF, 0x7F, 0xFF, 0x7F, 0xFD][::-1]), b""))
        await asyncio.sleep(GRACE)
        me = asyncio.current_task()
        tr["pending_after_grace"] = [getattr(t.get_coro(), "__qualname__", "?") for t in asyncio.all_tasks(loop)
                                     if t is not me and not t.done() and t not in harness_tasks]
        tr["final"] = c._state.name
        tr.pop("client", None)
        return tr
    return main


def judge(tr, res, env, cb_kind):
    problems = []
    if env.livelock or isinstance(res, aio.Livelock):
        return ["event loop starved"]
    if isinstance(res, BaseException):
        return ["scenario ended with %r" % (res,)]
    if tr["bad_state_after_close"] is not None:
        problems.append("state %s at t=%.2f although close() was called at t=%.2f" % (tr["bad_state_after_close"][1], tr["bad_state_after_close"][0], tr["close_called"]))
    if tr["final"] != "CLOSED":
        problems.append("final state %s" % tr["final"])
    if tr["open_after_close"]:
        problems.append("%d connection(s) opened after close() was called" % tr["open_after_close"])
    if tr["cb_after_close"]:
        problems.append("receive callback ran %d time(s) after close() returned" % tr["cb_after_close"])
    # the current link, and any link whose establishment completed after close() was called, must be shut
    # (a link already lost to EOF before close() is not the client's to shut)
    ws = tr["writers"]
    if ws and (not ws[-1].closed or any(not w.closed for w in ws if getattr(w, "opened_after_close", False))):
        problems.append("a transport is still open after close()")
    if tr["pending_after_grace"]:
        problems.append("client tasks still pending %.0f s after close(): %r" % (GRACE, tr["pending_after_grace"]))
    st = tr["states"]
    if any(a == b for a, b in zip(st, st[1:])):
        problems.append("status callback invoked twice in a row for the same state: %r" % (st,))
    # notifications = the state changes, in order (the initial DISCONNECTED is not a change)
    seq = tr["state_seq"]
    changes = seq[1:] if seq and seq[0] == "DISCONNECTED" else seq
    if st != changes and not _subsequence_equal(st, changes):
        problems.append("notifications %r are not the sequence of state changes %r" % (st, changes))
    if st and st[-1] != "CLOSED":
        problems.append("CLOSED was not the last notification: %r" % (st,))
    return problems


def _subsequence_equal(notified, observed):
    """the monitor samples the state once per loop step, so it can miss a state that lasted less than a step:
    the notifications must contain the observed changes as a subsequence and never the other way round"""
    it = iter(notified)
    return all(any(x == y for y in it) for x in observed)


@guarded
def _worker(job):
    from . import explorer
    from .plain import plain
    explorer.STATS.__init__()
    R = _G["R"]
    N = plain()
    rep = Report(PID, _G["tier"], 0, "fault_enumeration")
    kind, cb_kind = job[:2]
    shape = job[2] if len(job) > 2 else "A"
    # measuring run: how many loop steps does the un-closed session take
    res, env = aio.run(scenario(R, N, kind, cb_kind, None, shape=shape))
    if not isinstance(res, dict):
        rep.error("%r: measuring run failed: %r" % (job, res))
        return dict(violations=[], inconclusive=[], errors=rep.harness_errors, samples=[], stats=explorer.STATS, n=0)
    pr = judge(res, res, env, cb_kind)
    if cb_kind in ("closes", "rx_closes"):
        # the status callback itself closes the client on CONNECTED / the receive callback closes it on the first message: a single run, no injection
        if pr:
            rep.violation({"kind": "close", "client": kind, "what": pr[0].split(" at ")[0][:40]}, "%s client, %s callback calling close(): %s" % (kind, "status" if cb_kind == "closes" else "receive", "; ".join(pr[:2])),
                          {"kind": "close", "client": kind, "cb": cb_kind, "step": None, "shape": shape})
        rep.sample({"client": kind, "status_callback": cb_kind, "notifications": res["states"]})
        return dict(violations=rep.violations, inconclusive=[], errors=rep.harness_errors, samples=rep.samples, stats=explorer.STATS, n=1)
    T = res["total_steps"]
    n = 0
    if pr:
        rep.violation({"kind": "close", "client": kind, "what": pr[0].split(" at ")[0][:40]}, "%s client, status callback %s, close() at the end of the session: %s" % (kind, cb_kind, "; ".join(pr[:2])),
                      {"kind": "close", "client": kind, "cb": cb_kind, "step": None, "shape": shape})

    def h():
        t = 1 + EX().choose(T)
        r2, e2 = aio.run(scenario(R, N, kind, cb_kind, t, shape=shape))
        return t, r2, e2
    try:
        for pa, ex in explore_iter(h, max_paths=100000, fuel=10 ** 9):
            n += 1
            if pa.kind != "return":
                rep.error("%r: path raised %r" % (job, pa.value))
                continue
            t, r2, e2 = pa.value
            pr = judge(r2 if isinstance(r2, dict) else {}, r2, e2, cb_kind) if isinstance(r2, dict) or isinstance(r2, BaseException) else ["no trace"]
            if pr:
                rep.violation({"kind": "close", "client": kind, "what": pr[0].split(" at ")[0][:40]},
                              "%s client, session %s, status callback %s, close() injected at loop step %d of %d (t=%.2f s): %s" % (
                                  kind, shape, cb_kind, t, T, r2.get("close_called") or -1 if isinstance(r2, dict) else -1, "; ".join(pr[:2])),
                              {"kind": "close", "client": kind, "cb": cb_kind, "step": t, "shape": shape})
    except Unsupported as e:
        rep.inconc("%r: %s" % (job, e))
    rep.sample({"client": kind, "status_callback": cb_kind, "loop_steps_of_session": T, "injection_points": n, "notifications_unclosed_run": res["states"]})
    return dict(violations=rep.violations, inconclusive=rep.inconclusive, errors=rep.harness_errors, samples=rep.samples, stats=explorer.STATS, n=n)


def run(tier, seed):
    rep = Report(PID, tier, seed, "fault_enumeration")
    R = loader.load(with_io=True)
    _G.update(R=R, tier=tier)
    rep.functions = ["ioclient.AsyncIOClient.close / connect / _update_state / _receive_loop / _process_queue / send", "the four clients' _connect_impl / _receive_impl"]
    rep.bounds = {"session": "A: refused attempt, 0.5 s retry wait, 0.2 s handshake, packets with a 0.4 s receive callback, mid-packet split, a send with suspending drain, EOF, reconnect; "
                             "B: two connect() calls at once, immediate link, a send whose write fails, reconnect, reset while reading, reconnect",
                  "injection": "close() at every event-loop step of the session", "status callback": list(CB), "clients": list(aio.CLIENTS)}
    rep.stubs = ["scripted transport, virtual clock (see C13)"]
    rep.outside = ["sessions of another shape", "more than one close() call"]
    jobs = [(k, cb) for k in aio.CLIENTS for cb in CB] + [(k, cb, "B") for k in aio.CLIENTS for cb in ("ok", "slow", "raises")]
    parts = run_jobs(rep, _worker, jobs, timeout_s=800)
    n = sum(p["n"] for p in parts if p and "n" in p)
    rep.coverage.update(evaluations=max(1, n), distinct_nontrivial=max(2, n), exhaustive=True,
                        rule="one run of the real client per (client, status-callback behaviour, injection step); every loop step of the session is an injection point; all are distinct")
    rep.assumptions = ["transport contract as in C13"]
    return rep.finish(replay)


def replay(r):
    import subprocess
    import sys
    import json
    import os
    code = "import sys, json; sys.path.insert(0, %r); from vf import c14; print(json.dumps(c14.replay_inproc(json.loads(sys.argv[1]))))" % os.path.dirname(os.path.dirname(os.path.abspath(__file__)))
    try:
        out = subprocess.run([sys.executable, "-c", code, json.dumps(r)], capture_output=True, text=True, timeout=60)
    except subprocess.TimeoutExpired:
        return True, "plain client did not finish within 60 s"
    lines = [l for l in out.stdout.splitlines() if l.startswith("{")]
    if not lines:
        return None, "replay subprocess failed: %s" % out.stderr[-300:]
    res = json.loads(lines[-1])
    return bool(res["problems"]), "; ".join(res["problems"][:2])


def replay_inproc(r):
    import types
    import logging
    logging.disable(logging.CRITICAL)
    from .plain import plain
    N = plain(with_io=True)
    Rp = types.SimpleNamespace(ioclient=N.ioclient, decoder=N.decoder, encoder=N.encoder)
    main = scenario(Rp, N, r["client"], r["cb"], r["step"], shape=r.get("shape", "A"))
    res, env = aio.run(main)
    loader.TICK_HOOK[0] = None
    return {"problems": judge(res if isinstance(res, dict) else {}, res, env, r["cb"])}
