"""Decoder histories shared by C10/C11/C16: events with symbolic source addresses, symbolic payload bits and
symbolic 64-bit NAMEs, driven through the real NMEA2000Decoder._decode."""
from datetime import datetime
import z3

from .db import db
from .explorer import EX, Unsupported
from .proxies import SymInt, SymBytes, SymOpt, SymBool, truth, is_symbolic
from .numkernel import eq_term
from .symcoll import SymMap

TS = datetime(2020, 1, 1)
CLAIM = 60928
P_SINGLE = 127250        # vesselHeading (single frame)
P_FAST = 127506          # dcDetailedStatus (fast packet, 11 bytes -> 2 frames)
P_MULTI = 65280          # furunoHeave | fallback (multi-definition, single frame)


class World:
    """symbolic ingredients of a history"""

    def __init__(self, tag=""):
        self.sa = z3.BitVec("sa" + tag, 8)
        self.sb = z3.BitVec("sb" + tag, 8)
        self.name1 = z3.BitVec("name1" + tag, 64)
        self.name2 = z3.BitVec("name2" + tag, 64)
        self.head = z3.BitVec("heading" + tag, 16)
        self.soc = z3.BitVec("soc" + tag, 8)
        self.assume = [self.sa != self.sb, self.name1 != self.name2,
                       z3.ULE(self.head, 62831), z3.ULE(self.soc, 250)]
        for nm in (self.name1, self.name2):
            # device function 130 / class 10 ("Diagnostic"): the indirect lookup key is concrete; the rest of the NAME is free
            # (C01 decides the indirect lookup for every class / function; freeing them here multiplies the paths per claim by 9)
            self.assume += [z3.Extract(47, 40, nm) == 130, z3.Extract(55, 49, nm) == 10]
            # numeric NAME fields lie inside their database ranges (so: not the 'not available' pattern either), industry group = 4 (Marine): keeps the path count per claim small
            self.assume += [z3.ULE(z3.Extract(20, 0, nm), 2097148),   # unique number inside its database range (a claim outside it is rejected by the decoder)
                             z3.ULE(z3.Extract(34, 32, nm), 6), z3.ULE(z3.Extract(39, 35, nm), 29),
                            z3.ULE(z3.Extract(59, 56, nm), 13), z3.Extract(62, 60, nm) == 4]

    def src(self, who):
        return SymInt(z3.ZeroExt(1, self.sa if who == "a" else self.sb), 8)


def _le_bytes(bv, n):
    return [SymInt(z3.ZeroExt(1, z3.Extract(8 * i + 7, 8 * i, bv)), 8) for i in range(n)]


def frames_of(w, kind):
    """list of (pgn, can_data as received (reversed)) for one event kind"""
    if kind == "single":
        body = [0x01] + _le_bytes(w.head, 2) + [0xFF, 0x7F, 0xFF, 0x7F, 0xFD]
        return [(P_SINGLE, SymBytes(body[::-1]))]
    if kind == "multi_furuno":        # manufacturer 1855 (Furuno), industry 4
        body = [0x3F, 0x9F, 0x10, 0x00, 0x00, 0x00, 0xFF, 0xFF]
        return [(P_MULTI, bytes(body[::-1]))]
    if kind == "multi_other":
        body = [0x13, 0x99, 0x10, 0x00, 0x00, 0x00, 0xFF, 0xFF]
        return [(P_MULTI, bytes(body[::-1]))]
    if kind == "fast":
        pay = [0x01, 0x00, SymInt(z3.ZeroExt(1, w.soc), 8), 0x64, 0xFF, 0xFF, 0xFF, 0xFF, 0xFF, 0xFF, 0xFF]
        f0 = [0x40, 11] + pay[:6]
        f1 = [0x41] + pay[6:] + [0xFF, 0xFF]
        return [(P_FAST, SymBytes(f0[::-1])), (P_FAST, SymBytes(f1[::-1]))]
    if kind == "fast_first":
        return frames_of(w, "fast")[:1]
    if kind == "fast_last":
        return frames_of(w, "fast")[1:]
    if kind in ("claim1", "claim2"):
        nm = w.name1 if kind == "claim1" else w.name2
        return [(CLAIM, SymBytes(_le_bytes(nm, 8)[::-1]))]
    if kind == "unknown_pgn":
        return [(99999, bytes(8))]
    if kind in ("fm_furuno", "fm_simnet"):
        return [(P_FMULTI, bytes(fr[::-1])) for fr in fm_frames(kind)]
    raise ValueError(kind)


P_FMULTI = 130820         # multi-definition fast packet: simnetReprogramStatus | furunoUnknown130820 | fusion... (7 bytes -> 2 frames)


def fm_frames(kind):
    """the two CAN frames (8 data bytes each, wire order) of a 7-byte PGN 130820 message, sequence counter 0 for both makers"""
    head = [0x3F, 0x9F] if kind == "fm_furuno" else [0x41, 0x9F]       # manufacturer 1855 Furuno / 1857 Simrad, industry 4
    pay = head + [0x10, 0x00, 0x00, 0x00, 0x00]
    return [[0x00, 7] + pay[:6], [0x01] + pay[6:] + [0xFF] * 6]


EVENTS = [("single", "a"), ("single", "b"), ("fast", "a"), ("multi_furuno", "a"), ("multi_other", "b"), ("claim1", "a"), ("claim2", "a"),
          ("claim1", "b"), ("unknown_pgn", "a")]


def feed(dec, w, kind, who, dst=255, prio=3, via=None):
    """via=None: the shared decode path; via="tcp": the same frame as a 13-byte EByte packet through the public decode_tcp"""
    outs = []
    for pgn, can in frames_of(w, kind):
        if via == "tcp":
            wire = list(can)[::-1]
            pf = (pgn >> 8) & 0xFF
            ident = (prio << 26) | (((pgn | dst) if pf < 240 else pgn) << 8)
            src = w.src(who)
            idb = [(ident >> 24) & 0xFF, (ident >> 16) & 0xFF, (ident >> 8) & 0xFF, src]
            outs.append(dec.decode_tcp(SymBytes([0x80 | len(wire)] + idb + wire + [0] * (8 - len(wire)))))
        else:
            outs.append(dec._decode(pgn, prio, w.src(who), dst, TS, can, b""))
    return outs


def msg_summary(m):
    """comparable content of a returned message"""
    if m is None:
        return None
    iso = m.source_iso_name
    return {"PGN": m.PGN, "id": m.id, "src": m.source, "dst": m.destination, "prio": m.priority,
            "fields": [(f.id, f.value, f.raw_value, f.unit_of_measurement) for f in m.fields],
            "iso": None if iso is None else (iso.name, iso.unique_number, iso.manufacturer_code, iso.device_instance, iso.device_function,
                                              iso.device_class, iso.system_instance, iso.industry_group), "hash": m.hash}


def eq_any(a, b):
    """z3 Bool: two summary values are equal"""
    if isinstance(a, (list, tuple)) and isinstance(b, (list, tuple)):
        if len(a) != len(b):
            return z3.BoolVal(False)
        return z3.And(*[eq_any(x, y) for x, y in zip(a, b)]) if a else z3.BoolVal(True)
    if isinstance(a, dict) and isinstance(b, dict):
        if set(a) != set(b):
            return z3.BoolVal(False)
        return z3.And(*[eq_any(a[k], b[k]) for k in a])
    if isinstance(a, SymBool) or isinstance(b, SymBool):
        return truth(a) == truth(b)
    if is_symbolic(a) or is_symbolic(b):
        return eq_term(a, b)
    return z3.BoolVal(a == b)
