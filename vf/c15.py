"""C15 - JSON round-trips to an equivalent, re-encodable message; the dump is faithful.
(J) the real to_json / from_json run symbolically around a contract model of orjson (value map J: finite floats and
    ints in 64 bits map to themselves, NaN/Inf to null, bytes via the library's `default` to hex, dates/times to ISO
    text, enums to their value, dataclasses to dicts); for every encodable definition z3 proves, for all payloads
    the decoder accepts, that the parsed message encodes to the same bytes as the original.  J itself is validated
    against the real orjson on every run.
(T) for every supported definition the Python type of each value/raw value is in the domain of J (to_json cannot fail).
(D) dump: every dump filter of the bound x a history: the file holds exactly to_json()+newline of the returned
    messages that match the filter (by number or by id, case-insensitively; all if empty), in order."""
import io
import itertools
import json
import math
import os
from datetime import date, time, datetime, timedelta
import z3

from . import numkernel, c02
from .c01 import Harness, layout, SUPPORTED, SymFlags, SymBinary, SymText
from .common import Report, guarded, run_jobs
from .db import db
from .envmodels import SymDate, SymTime
from .explorer import explore, prove, satisfiable, Unsupported, EX, has_fp
from .numkernel import Sig
from .proxies import SymInt, SymFloat, SymOpt, SymBool, SymBytes, truth, int_from_bytes, is_symbolic
from .symcoll import SymMap
from . import proxies as P

PID = "C15"
_G = {}


class JsonDoc:
    """result of orjson.dumps in the model: the J-mapped tree"""

    def __init__(self, tree):
        self.tree = tree

    def decode(self, *a):
        return self

    def __getattr__(self, k):
        # anything else done to the document (text-level post-processing of the JSON) is outside the tree model
        if k.startswith("__"):
            raise AttributeError(k)
        raise Unsupported("the JSON document is post-processed as text (.%s): outside the contract model of orjson" % k)

    def __add__(self, o):
        if o == "\n":
            return self
        raise Unsupported("the JSON document is post-processed as text (+)")


class IsoText:
    def __init__(self, what):
        self.what = what


class HexText:
    """the str produced by bytes.hex() on a symbolic binary value"""

    def __init__(self, b):
        self.b = b


_OPT = [0]          # option flags of the dumps() call being modelled


def J(obj, default):
    """orjson's documented mapping, applied to proxies as well"""
    import dataclasses
    import enum
    import orjson as _real_orjson
    if _OPT[0] & _real_orjson.OPT_PASSTHROUGH_DATETIME and isinstance(obj, (SymDate, SymTime, datetime, date, time)):
        # OPT_PASSTHROUGH_DATETIME: datetime, date and time instances are handed to `default`
        if default is None:
            raise TypeError("Type is not JSON serializable: %s" % type(obj).__name__)
        return J_after_default(default(obj), default)
    if obj is None or isinstance(obj, (bool, str, HexText, IsoText)):
        return obj
    if isinstance(obj, int):
        if not -(1 << 63) <= obj < (1 << 64):
            raise TypeError("Integer exceeds 64-bit range")
        return obj
    if isinstance(obj, SymInt):
        if bool((obj < -(1 << 63)) | (obj >= (1 << 64))):
            raise TypeError("Integer exceeds 64-bit range")
        return obj
    if isinstance(obj, float):
        return obj if math.isfinite(obj) else None
    if isinstance(obj, SymFloat):
        if P.fp_abs_bound(obj.t) is not None:
            return obj          # finite by construction (interval analysis of the term)
        nonfinite = z3.simplify(z3.Or(z3.fpIsNaN(obj.t), z3.fpIsInf(obj.t)))
        return obj if z3.is_false(nonfinite) else SymOpt(nonfinite, obj)
    if isinstance(obj, SymOpt):
        inner = J(obj.inner, default)
        if isinstance(inner, SymOpt):
            return SymOpt(z3.Or(obj.none, inner.none), inner.inner)
        return SymOpt(obj.none, inner)
    if isinstance(obj, (SymMap, SymFlags, SymText)):
        return obj          # str (or None for SymMap): unchanged
    if isinstance(obj, (SymDate, SymTime)):
        return IsoText(obj)
    if isinstance(obj, (datetime, date, time)):
        return obj.isoformat()
    if isinstance(obj, enum.Enum):
        return J(obj.value, default)
    if isinstance(obj, (list, tuple)):
        return [J(x, default) for x in obj]
    if isinstance(obj, dict):
        out = {}
        for k, v in obj.items():
            if not isinstance(k, str):
                raise TypeError("Dict key must be str")
            out[k] = J(v, default)
        return out
    if dataclasses.is_dataclass(obj) and not isinstance(obj, type):
        return {f.name: J(getattr(obj, f.name), default) for f in dataclasses.fields(obj)}
    if isinstance(obj, (SymBinary, SymBytes)):
        return J(_BytesProxy(obj), default)
    if default is not None:
        return J(default(obj), default)
    raise TypeError("Type is not JSON serializable: %s" % type(obj).__name__)


def _spec_default(o):
    """the rendering the property demands for values that are not JSON-native: binary as hex"""
    if isinstance(o, _BytesProxy):
        return HexText(o.b)
    raise TypeError(type(o).__name__)


def rendered_eq(v, v2):
    """z3 Bool: v2 (taken from the parsed message) is the demanded JSON rendering of v - v itself for JSON-native values,
    hex for binary, ISO text for dates and times, null for non-finite floats"""
    try:
        e = J(v, _spec_default)
    except TypeError:
        return z3.BoolVal(False)
    return _tree_eq(e, v2)


def _tree_eq(e, g):
    if e is g:
        return z3.BoolVal(True)
    if isinstance(e, SymOpt) or isinstance(g, SymOpt):
        en = e.none if isinstance(e, SymOpt) else z3.BoolVal(e is None)
        gn = g.none if isinstance(g, SymOpt) else z3.BoolVal(g is None)
        ei = e.inner if isinstance(e, SymOpt) else e
        gi = g.inner if isinstance(g, SymOpt) else g
        inner = _tree_eq(ei, gi) if (ei is not None and gi is not None) else z3.BoolVal(True)
        return z3.And(en == gn, z3.Implies(z3.Not(en), inner))
    if isinstance(e, HexText) or isinstance(g, HexText):
        return z3.BoolVal(isinstance(e, HexText) and isinstance(g, HexText) and e.b is g.b)
    if isinstance(e, IsoText) or isinstance(g, IsoText):
        if not (isinstance(e, IsoText) and isinstance(g, IsoText)):
            return z3.BoolVal(False)
        return z3.BoolVal(True) if e.what is g.what else numkernel.eq_term(e.what, g.what)
    if isinstance(e, (SymFlags, SymText, SymBinary)) or isinstance(g, (SymFlags, SymText, SymBinary)):
        return z3.BoolVal(False)
    if isinstance(e, list) or isinstance(g, list):
        if not (isinstance(e, list) and isinstance(g, list) and len(e) == len(g)):
            return z3.BoolVal(False)
        return z3.And(*[_tree_eq(a, b) for a, b in zip(e, g)]) if e else z3.BoolVal(True)
    return numkernel.eq_term(e, g)


def J_after_default(v, default):
    saved = _OPT[0]
    try:
        import orjson as _real_orjson
        if isinstance(v, (SymDate, SymTime, datetime, date, time)):
            raise TypeError("default returned a datetime again")
        return J(v, default)
    finally:
        _OPT[0] = saved


class _BytesProxy:
    """a bytes value whose content is symbolic: the library's `default` calls .hex() on it"""

    def __init__(self, b):
        self.b = b

    def hex(self):
        return HexText(self.b)


class _OrjsonMeta(type):
    def __getattr__(cls, k):
        import orjson as _real_orjson
        if k.startswith("OPT_"):
            return getattr(_real_orjson, k)
        raise AttributeError(k)


class _Orjson(metaclass=_OrjsonMeta):
    JSONDecodeError = ValueError

    @staticmethod
    def dumps(obj, default=None, option=None):
        import orjson as _real_orjson
        known = _real_orjson.OPT_PASSTHROUGH_DATETIME | _real_orjson.OPT_NAIVE_UTC | _real_orjson.OPT_UTC_Z | _real_orjson.OPT_SORT_KEYS | _real_orjson.OPT_APPEND_NEWLINE
        if option and option & ~known:
            raise Unsupported("orjson option %#x is not part of the contract model" % option)
        if option and option & (_real_orjson.OPT_SORT_KEYS | _real_orjson.OPT_APPEND_NEWLINE):
            raise Unsupported("orjson OPT_SORT_KEYS / OPT_APPEND_NEWLINE change the text, which the model does not represent")
        _OPT[0] = option or 0

        def dflt(o):
            if isinstance(o, _BytesProxy):
                # route through the library's default with a real bytes-like test: isinstance(o, (bytes, bytearray)) is what it checks
                return default(_FakeBytes(o)) if default else (_ for _ in ()).throw(TypeError("bytes"))
            return default(o) if default else (_ for _ in ()).throw(TypeError(type(o).__name__))
        return JsonDoc(J(obj, dflt))

    @staticmethod
    def loads(doc):
        if isinstance(doc, JsonDoc):
            return _copy(doc.tree)
        import orjson
        return orjson.loads(doc)


class _FakeBytes(bytes):
    def __new__(cls, proxy):
        o = bytes.__new__(cls, b"")
        o.proxy = proxy
        return o

    def hex(self, *a):
        return HexText(self.proxy.b)


def _copy(t):
    if isinstance(t, dict):
        return {k: _copy(v) for k, v in t.items()}
    if isinstance(t, list):
        return [_copy(v) for v in t]
    return t


def validate_J(rep):
    """the contract model against the real orjson, on concrete values (every clause of J)"""
    import orjson
    import dataclasses
    import enum

    class E(enum.Enum):
        A = (3,)

    @dataclasses.dataclass
    class DC:
        x: int
        y: float

    def dflt(o):
        if isinstance(o, (bytes, bytearray)):
            return o.hex()
        if isinstance(o, timedelta):
            return o.total_seconds()
        raise TypeError
    samples = [0, 1, -1, (1 << 64) - 1, -(1 << 63), 1.5, -0.0, 1e300, float("nan"), float("inf"), "text", "é中", None, True,
               b"\x00\xff", timedelta(milliseconds=100), date(2020, 2, 29), time(1, 2, 3), datetime(2020, 1, 1, 1, 2, 3), E.A, DC(1, 2.5),
               [1, [2, "x"]], {"a": {"b": 1.25}}]
    n = 0
    for s in samples:
        real = orjson.loads(orjson.dumps({"v": s}, default=dflt))
        model = J({"v": s}, dflt)
        if json.loads(json.dumps(model)) != real:
            rep.error("orjson contract model disagrees with orjson on %r: %r vs %r" % (s, model, real))
        n += 1
    for bad in (1 << 64, -(1 << 63) - 1):
        try:
            orjson.dumps({"v": bad})
            rep.error("orjson accepted %r" % bad)
        except TypeError:
            pass
    rep.count("orjson_contract_clauses_validated", n)


@guarded
def _worker(idxs):
    from . import explorer
    explorer.STATS.__init__()
    D, H = _G["D"], _G["H"]
    R = H.R
    ns = H.ns
    rep = Report(PID, _G["tier"], 0, "other")
    nd = 0
    import time as _time
    t_stop = _time.time() + (420 if _G["tier"] == "quick" else 2400)
    for i in idxs:
        p = D.pgns[i]
        if len(rep.violations) >= 6:
            break            # enough counterexamples from this share of the definitions; the verdict is VIOLATED anyway
        if _time.time() > t_stop:
            rep.inconc("time budget of the worker exhausted before definition %s" % p.id)
            break
        suffix = D.func_suffix(p)
        dec_fn = ns.get("decode_pgn_%s" % suffix)
        pv, fvars, W = layout(p)
        payload = SymInt(z3.ZeroExt(1, pv))
        enc_ok = c02.encodable(p)

        S_, D_, P_ = z3.BitVec("src", 8), z3.BitVec("dst", 8), z3.BitVec("prio", 3)
        addr = [SymInt(z3.ZeroExt(1, S_), 8), SymInt(z3.ZeroExt(1, D_), 8), SymInt(z3.ZeroExt(1, P_), 3)]

        with_identity = (i % 2 == 1) or _G["tier"] == "thorough"

        def h():
            mode, m, calls, lg = H.run_def(dec_fn, payload)
            iso = None
            if with_identity:
                # a source identity as the decoder builds it from an address claim (largest legal unique number, all NAME fields set)
                name_ = 2097148 | (229 << 21) | (6 << 32) | (29 << 35) | (130 << 40) | (10 << 49) | (13 << 56) | (4 << 60) | (1 << 63)
                iso = R.message.IsoName(ns["decode_pgn_60928"](name_), name_)
            m.add_data(addr[0], addr[1], addr[2], datetime(2020, 1, 1), iso, False, b"\x01\x02")
            ex = EX()
            n0 = len(ex.deferred)
            try:
                doc = m.to_json()
                m2 = R.message.NMEA2000Message.from_json(doc)
            except Exception as e:
                return "json-raised", e, None, n0, n0, n0, m, None
            shape = (m2.PGN == m.PGN and m2.id == m.id and [f.id for f in m2.fields] == [f.id for f in m.fields])
            addr_ok = z3.And(numkernel.eq_term(m2.source, addr[0]), numkernel.eq_term(m2.destination, addr[1]), numkernel.eq_term(m2.priority, addr[2]))
            if shape is True:
                fld = [(f.id, z3.And(rendered_eq(f.value, g.value), rendered_eq(f.raw_value, g.raw_value))) for f, g in zip(m.fields, m2.fields)]
                bad_ids = [i for i, c in fld if z3.is_false(z3.simplify(c))]
                addr_ok = (addr_ok, bad_ids, z3.And(*[c for _, c in fld]) if fld else z3.BoolVal(True))
            b1 = b2 = None
            if enc_ok and mode == "full":
                enc = R.encoder.NMEA2000Encoder()
                n1 = len(ex.deferred)
                b1 = enc._call_encode_function(m)
                n2 = len(ex.deferred)
                try:
                    b2 = enc._call_encode_function(m2)
                except Exception as e:
                    b2 = ("raised", type(e).__name__, str(e)[:60])
                return shape, b1, b2, n0, n1, n2, m, addr_ok
            return shape, None, None, n0, n0, n0, m, addr_ok
        try:
            paths, ex = explore(h, max_paths=256)
        except Unsupported as e:
            rep.inconc("%s: %s" % (p.id, e))
            continue
        nd += 1
        inrange = []
        for f_ in p.fields:
            if f_.fixed and f_.res is not None and f_.type in ("NUMBER", "PGN", "DURATION", "TIME", "DATE", "MMSI") and z3.is_const(fvars.get(f_.order)):
                sg = Sig(f_)
                inrange.append(z3.Or(numkernel.in_range_bv(sg, fvars[f_.order]), fvars[f_.order] == z3.BitVecVal(sg.sentinel, f_.len)))
        for pa in paths:
            def wit(mm):
                return {"kind": "json", "def": p.id, "payload": hex(mm.eval(pv, True).as_long()) if mm is not None else "0x0"}
            if pa.kind == "raise":
                if isinstance(pa.value, RecursionError):
                    rep.error("%s: recursion in the harness: %r" % (p.id, pa.value))
                    continue
                if isinstance(pa.value, TypeError) or "JSON" in str(pa.value):
                    st0, m0 = satisfiable(z3.And(*([c for c in pa.pc if not has_fp(c)] + inrange)))
                    if st0 == "sat":
                        rep.violation({"kind": "to-json-raises", "def": p.id}, "%s: to_json/from_json raised %r" % (p.id, pa.value), wit(m0))
                else:
                    rep.count("paths_on_which_the_decoder_or_the_encoder_of_the_original_raises", 1)
                continue
            if pa.kind != "return":
                continue
            shape, b1, b2, n0, n1, n2, m, addr_ok = pa.value
            if shape == "json-raised":
                st0, m0 = satisfiable(z3.And(*([c for c in pa.pc if not has_fp(c)] + inrange)))
                if st0 == "sat":
                    rep.violation({"kind": "to-json-raises", "def": p.id}, "%s: to_json/from_json raised %r" % (p.id, b1), wit(m0))
                continue
            if shape is True:
                addr_ok, bad_ids, fields_ok = addr_ok
                if bad_ids:
                    st0, m0 = satisfiable(z3.And(*([c for c in pa.pc if not has_fp(c)] + inrange)))
                    if st0 == "sat":
                        rep.violation({"kind": "json-field", "def": p.id, "field": bad_ids[0]},
                                      "%s.%s: value / raw value in the parsed message is not the demanded rendering (binary as hex, date and time as ISO text, otherwise the same value)" % (p.id, bad_ids[0]), wit(m0))
                        continue
                elif not z3.is_true(z3.simplify(fields_ok)):
                    stf, mmf = prove(fields_ok, list(pa.pc) + inrange, label="json-field-values", timeout_ms=30000)
                    if stf == "sat":
                        rep.violation({"kind": "json-field", "def": p.id}, "%s: a field's value / raw value changes in the JSON round trip" % p.id, wit(mmf))
                        continue
                    elif stf == "unknown":
                        rep.inconc("%s: field values in the JSON round trip undecided" % p.id)
                sta, mma = prove(addr_ok, [c for c in pa.pc if not has_fp(c)] + inrange, label="json-addressing")
                if sta == "sat":
                    w_ = wit(mma)
                    w_.update(src=mma.eval(S_, True).as_long(), dst=mma.eval(D_, True).as_long(), prio=mma.eval(P_, True).as_long())
                    rep.violation({"kind": "json-addressing", "def": p.id}, "%s: source/destination/priority change in the JSON round trip" % p.id, w_)
                    continue
            if not shape:
                st0, m0 = satisfiable(z3.And(*([c for c in pa.pc if not has_fp(c)] + inrange)))
                if st0 == "sat":
                    rep.violation({"kind": "json-shape", "def": p.id}, "%s: parsed message differs in PGN/id/addressing/field ids" % p.id, wit(m0))
                continue
            if b1 is None:
                continue
            dec_guards = [g for g, _ in pa.deferred[:n0]]
            enc1_guards = [g for g, _ in pa.deferred[n1:n2]]
            enc2_guards = [g for g, _ in pa.deferred[n2:]]
            acc_bv = [z3.Not(g) for g in dec_guards + enc1_guards if not has_fp(g)]
            if isinstance(b2, tuple):
                # the parsed message cannot be encoded although the original can: find a payload (exact binary64 search)
                st0, m0 = satisfiable(z3.And(*(list(pa.pc) + inrange + [z3.Not(g) for g in dec_guards + enc1_guards])), timeout_ms=30000)
                if st0 == "sat":
                    rep.violation({"kind": "parsed-not-encodable", "def": p.id, "why": b2[2][:30]},
                                  "%s: the message parsed back from JSON cannot be encoded (%s) although the original can" % (p.id, b2[2]), wit(m0))
                elif st0 == "unknown":
                    rep.inconc("%s: parsed-not-encodable path undecided" % p.id)
                continue
            if enc2_guards:
                # guards of the second encoding must be implied by the first's (same values): structural identity expected
                g1 = {z3.simplify(g).get_id() for g in enc1_guards}
                extra = [g for g in enc2_guards if z3.simplify(g).get_id() not in g1]
                for g in extra:
                    st, mm = prove(z3.Not(g), list(pa.pc) + inrange + [z3.Not(x) for x in dec_guards + enc1_guards], label="json-enc-guard", timeout_ms=30000)
                    if st == "sat":
                        rep.violation({"kind": "parsed-not-encodable", "def": p.id, "why": "guard"}, "%s: parsed message is rejected by the encoder although the original is not" % p.id, wit(mm))
                    elif st == "unknown":
                        rep.inconc("%s: encoder guard of the parsed message undecided" % p.id)

            def as_int(b):
                if isinstance(b, P.SymBytesVar):
                    return b.value
                return SymInt.lift(int_from_bytes(b, "little"))
            t1, t2 = as_int(b1), as_int(b2)
            wmax = max(t1.w, t2.w)
            eq = t1.ext(wmax) == t2.ext(wmax)
            if z3.is_true(z3.simplify(eq)):
                explorer.STATS.obl += 1
                explorer.STATS.unsat += 1
                continue
            st, mm = prove(eq, list(pa.pc) + inrange + [z3.Not(g) for g in dec_guards if not has_fp(g)], label="json-reencode", timeout_ms=30000)
            if st == "sat":
                rep.violation({"kind": "reencode-differs", "def": p.id}, "%s: the message parsed back from JSON encodes to different bytes" % p.id, wit(mm))
            elif st == "unknown":
                rep.inconc("%s: re-encode equality undecided" % p.id)
        if len(rep.samples) < 1:
            rep.sample({"definition": p.id, "paths": len(paths), "encodable": enc_ok})
    return dict(violations=rep.violations, inconclusive=rep.inconclusive, errors=rep.harness_errors, samples=rep.samples, stats=explorer.STATS, nd=nd, counts=rep.counts)


TEXTS = ["plain ascii", "w\u00f3rld \u00e9t\u00e9", "\u65e5\u672c\u8a9e \u91ce\u4e38", "\U00020bb7\u91ce", "ok \U0001f600!", "\u0394\u03b5\u03bb\u03c4\u03b1 \u2603"]


def strings_check(rep, N):
    """(S) text fields with non-ASCII content (Latin-1, CJK, Greek, characters outside the Basic Multilingual Plane): the
    JSON text is valid JSON and parses back to the same value and raw value.  Concrete messages on the plain code: the
    symbolic runs treat decoded text as an opaque value, so the characters themselves are exercised here."""
    D = db()
    n = 0
    # fixed strings: the first three definitions whose only non-numeric field is one STRING_FIX of >= 16 bytes
    fixed = [p for p in D.pgns if [f.type for f in p.fields].count("STRING_FIX") >= 1 and all(f.fixed for f in p.fields)
             and all(f.type in SUPPORTED for f in p.fields) and max(f.len for f in p.fields if f.type == "STRING_FIX") >= 128][:8]
    cases = []
    for p in fixed:
        f = max((g for g in p.fields if g.type == "STRING_FIX"), key=lambda g: g.len)
        from .wire import match_payload
        base = int.from_bytes(match_payload(p), "little")
        for t in TEXTS:
            b = t.encode("utf-8")[:f.len // 8]
            while True:
                try:
                    b.decode("utf-8")
                    break
                except UnicodeDecodeError:
                    b = b[:-1]
            pl = (base & ~(((1 << f.len) - 1) << f.off)) | (int.from_bytes(b + b"\x00" * (f.len // 8 - len(b)), "little") << f.off)
            cases.append((p, pl, f.id))
    # variable strings (STRING_LAU, both wire encodings): PGN 126998 configuration information
    p998 = [q for q in D.pgns if q.pgn == 126998]
    if p998:
        for t in TEXTS:
            for ctrl, enc in ((1, "utf-8"), (0, "utf-16-le")):
                body = b""
                for txt in (t, "x", ""):
                    e = txt.encode(enc)
                    body += bytes([len(e) + 2, ctrl]) + e
                cases.append((p998[0], int.from_bytes(body, "little"), None))
    for p, pl, fid in cases:
        fn = N.pgns.__dict__["decode_pgn_%s" % D.func_suffix(p)]
        try:
            m = fn(pl)
        except Exception:
            continue
        m.add_data(1, 2, 3, datetime(2020, 1, 1), None, False, b"")
        n += 1
        bad = None
        try:
            doc = m.to_json()
            json.loads(doc)
            m2 = N.message.NMEA2000Message.from_json(doc)
            for a_, b_ in zip(m.fields, m2.fields):
                if isinstance(a_.value, str) and (a_.value != b_.value or (isinstance(a_.raw_value, str) and a_.raw_value != b_.raw_value)):
                    bad = "field %s: text %r parses back as %r" % (a_.id, a_.value, b_.value)
        except Exception as e:
            bad = "to_json / from_json raised %r" % (e,)
        if bad:
            if rep is None:
                return True, "%s payload %#x: %s" % (p.id, pl, bad)
            rep.violation({"kind": "json-text", "def": p.id}, "%s: %s" % (p.id, bad), {"kind": "strings"})
            break
    if rep is None:
        return False, "%d messages with non-ASCII text round-trip" % n
    rep.count("messages_with_non_ascii_text", n)


DUMP_ENTRIES = [127250, 127506, 65280, 126992, "vesselHeading", "vesselheading", "VESSELHEADING", "dcDetailedStatus", "furunoHeave", "noSuchId"]


def dump_check(rep, N_or_R, tier, is_plain=False):
    """(D) enumerated dump filters x a fixed history of concrete messages"""
    from .hist import P_SINGLE, P_FAST, P_MULTI, TS
    M = N_or_R
    configs = [()] + [(e,) for e in DUMP_ENTRIES] + [pq for pq in itertools.permutations(DUMP_ENTRIES, 2) if isinstance(pq[0], int) != isinstance(pq[1], int)]
    frames = [(P_SINGLE, bytes([1, 0x10, 0x27, 0xFF, 0x7F, 0xFF, 0x7F, 0xFD])), (P_MULTI, bytes([0x3F, 0x9F, 0x10, 0, 0, 0, 0xFF, 0xFF])),
              (P_FAST, bytes([0x40, 11, 1, 0, 5, 0x64, 0xFF, 0xFF])), (P_FAST, bytes([0x41, 0xFF, 0xFF, 0xFF, 0xFF, 0xFF, 0xFF, 0xFF])),
              (99999, bytes(8)), (P_SINGLE, bytes([2, 0x20, 0x4E, 0xFF, 0x7F, 0xFF, 0x7F, 0xFD])), (P_MULTI, bytes([0x13, 0x99, 0x10, 0, 0, 0, 0xFF, 0xFF]))]
    n = 0
    PQ_ = M.consts.PhysicalQuantities
    prefs_all = {PQ_.TEMPERATURE: "C", PQ_.ANGLE: "deg", PQ_.PRESSURE: "bar", PQ_.SPEED: "kts"}
    # every filter without unit preferences; the empty filter and the single-entry filters also with unit preferences
    # (the dump must hold the JSON of the messages as they are returned, i.e. after conversion)
    runs = [(cfg, {}) for cfg in configs] + [(cfg, prefs_all) for cfg in configs if len(cfg) <= 1]
    for cfg, prefs in runs:
        dec = M.decoder.NMEA2000Decoder(dump_pgns=list(cfg), preferred_units=dict(prefs))
        buf = io.StringIO()
        dec.dump_TextIOWrapper = buf
        expect = []
        nums = [e for e in cfg if isinstance(e, int)]
        ids = [e.lower() for e in cfg if isinstance(e, str)]
        bad = None
        try:
            for pgn, body in frames:
                m = dec._decode(pgn, 3, 7, 255, TS, body[::-1], b"")
                if m is not None and (not cfg or m.PGN in nums or m.id.lower() in ids):
                    expect.append(m.to_json() + "\n")
        except Exception as e:
            bad = "raised %r" % (e,)
        got = buf.getvalue()
        if bad is None and got != "".join(expect):
            def ids_(text):
                out = []
                for l in text.splitlines():
                    try:
                        out.append(json.loads(l)["id"])
                    except Exception:
                        out.append("<not one JSON document: %d characters>" % len(l))
                return out
            bad = "dump holds %d line(s) %r, expected %d %r%s" % (got.count("\n"), ids_(got), len(expect), ids_("".join(expect)),
                                                                  " - same messages, different content" if ids_(got) == ids_("".join(expect)) else "")
        n += 1
        if bad is not None:
            if rep is None:
                return True, "dump_pgns=%r%s: %s" % (list(cfg), " with unit preferences" if prefs else "", bad)
            rep.violation({"kind": "dump", "filter": repr(list(cfg)), "prefs": bool(prefs)}, "dump_pgns=%r%s: %s" % (list(cfg), " with unit preferences" if prefs else "", bad), {"kind": "dump", "filter": list(cfg)})
    if rep is None:
        return False, "all %d dump filters faithful" % n
    rep.count("dump_filters", n)


def run(tier, seed):
    from . import explorer
    rep = Report(PID, tier, seed, "other")
    D = db()
    H = Harness()
    H.R.message.__dict__["orjson"] = _Orjson
    _G.update(D=D, H=H, tier=tier)
    validate_J(rep)
    rep.functions = ["message.NMEA2000Message.to_json (incl. its `default`)", "message.NMEA2000Message.from_json", "pgns.decode_pgn_* / encode_pgn_*",
                     "encoder._call_encode_function", "decoder._call_decode_function (dump branch)", "decoder.split_pgn_list"]
    rep.stubs = ["orjson.dumps/loads -> contract model J (validated against the real orjson on concrete values each run)",
                 "dump file -> io.StringIO"]
    defs = [i for i, p in enumerate(D.pgns) if all(f.type in SUPPORTED for f in p.fields) and all(f.fixed for f in p.fields)]
    defs = [i for i in defs if not (len(D.groups[D.pgns[i].pgn]) > 1 and not D.multi(D.pgns[i].pgn)
                                    and D.pgns[i] is not ([q for q in D.groups[D.pgns[i].pgn] if not q.fallback] or D.groups[D.pgns[i].pgn])[0])]
    rep.bounds = {"definitions": "%d fixed-layout definitions (JSON type domain), of which the encodable ones are re-encoded" % len(defs),
                  "payloads": "all payloads the decoder accepts", "dump": "filters of 0..2 entries over %d candidates x a 7-frame history" % len(DUMP_ENTRIES)}
    rep.outside = ["that orjson's output text is syntactically valid JSON (trusted; exercised concretely)", "definitions with variable-length fields",
                   "source identities other than the one concrete identity attached to every other definition (thorough: to all)"]
    nproc = 16
    order = sorted(defs, key=lambda i: -len(D.pgns[i].fields))
    parts = run_jobs(rep, _worker, [order[k::nproc] for k in range(nproc)], timeout_s=800)
    rep.count("definitions", sum(p["nd"] for p in parts if p and "nd" in p))
    from .plain import plain
    dump_check(rep, plain(), tier)
    strings_check(rep, plain())
    rep.coverage.update(explanation="bounded symbolic verification: to_json/from_json/encoders executed symbolically around a validated orjson contract model for %d definitions "
                                    "(all accepted payloads); dump filters enumerated" % len(defs))
    rep.assumptions = ["orjson behaves as its documented contract (J)", "the decoder accepted the payload"]
    return rep.finish(replay)


def replay(r):
    from .plain import plain
    N = plain()
    D = db()
    if r["kind"] == "strings":
        return strings_check(None, N)
    if r["kind"] == "dump":
        dec = None
        ok, detail = dump_check(None, N, "quick")
        return ok, detail
    p = [q for q in D.pgns if q.id == r["def"]][0]
    fn = N.pgns.__dict__["decode_pgn_%s" % D.func_suffix(p)]
    payload = int(r["payload"], 16)
    nb = p.length or (max(f.off + f.len for f in p.fields) + 7) // 8
    payload &= (1 << (8 * nb)) - 1
    try:
        m = fn(payload)
    except Exception as e:
        return False, "decoder rejects the payload: %r" % (e,)
    a3 = (r.get("src", 5), r.get("dst", 9), r.get("prio", 3))
    m.add_data(a3[0], a3[1], a3[2], datetime(2020, 1, 1), None, False, b"\x01\x02")
    try:
        doc = m.to_json()
        json.loads(doc)
        m2 = N.message.NMEA2000Message.from_json(doc)
    except Exception as e:
        return True, "to_json/from_json raised %r" % (e,)
    problems = []
    if (m2.PGN, m2.id, m2.source, m2.destination, m2.priority) != (m.PGN, m.id) + a3 or [f.id for f in m2.fields] != [f.id for f in m.fields]:
        problems.append("PGN/id/addressing/field ids differ")
    def rendering(v):
        if isinstance(v, (bytes, bytearray)):
            return v.hex()
        if isinstance(v, (date, time, datetime)):
            return v.isoformat()
        if isinstance(v, float) and not math.isfinite(v):
            return None
        return v
    for f, g in zip(m.fields, m2.fields):
        for a_, b_, nm in ((f.value, g.value, "value"), (f.raw_value, g.raw_value, "raw value")):
            e_ = rendering(a_)
            if type(e_) is not type(b_) or e_ != b_:
                problems.append("field %s: %s %r parses back as %r (expected %r)" % (f.id, nm, a_, b_, e_))
    enc = N.encoder.NMEA2000Encoder()
    try:
        b1 = enc._call_encode_function(m)
    except Exception:
        b1 = None
    if b1 is not None:
        try:
            b2 = enc._call_encode_function(m2)
            if b2 != b1:
                problems.append("re-encodes to %s, original %s" % (b2.hex(), b1.hex()))
        except Exception as e:
            problems.append("parsed message cannot be encoded: %s" % (e,))
    return bool(problems), "payload %#x: %s" % (payload, "; ".join(problems))
