"""Shared protocol: evidence, replays, known findings, exit codes."""
import json
import os
import sys
import time

from .explorer import STATS

ROOT = os.path.dirname(os.path.dirname(os.path.abspath(__file__)))
EVID = os.environ.get("VF_EVIDENCE_DIR") or os.path.join(ROOT, "evidence")        # overridden only by tools/seed_matrix.py
REPLAYS = os.environ.get("VF_REPLAY_DIR") or os.path.join(ROOT, "replays")
KNOWN = os.path.join(ROOT, "known_findings.json")

EXIT_OK, EXIT_VIOLATION, EXIT_HARNESS = 0, 1, 3


class HarnessError(Exception):
    pass


def load_known():
    if not os.path.exists(KNOWN):
        return []
    return json.load(open(KNOWN)).get("findings", [])


def _match(entry_key, key):
    return all(key.get(k) == v for k, v in entry_key.items())


class Report:
    """collects what one check run covered and found"""

    def __init__(self, pid, tier, seed, level):
        self.pid = pid
        self.tier = tier
        self.seed = seed
        self.level = level
        self.t0 = time.time()
        self.coverage = {}
        self.assumptions = []
        self.violations = []      # (key dict, text, replay dict)
        self.inconclusive = []    # text
        self.harness_errors = []
        self.functions = []
        self.bounds = {}
        self.outside = []
        self.stubs = []
        self.samples = []
        self.counts = {}

    # --- recording
    def count(self, k, n=1):
        self.counts[k] = self.counts.get(k, 0) + n

    def sample(self, s, limit=12):
        if len(self.samples) < limit:
            self.samples.append(s)

    def violation(self, key, text, replay):
        """key: dict identifying where/what; replay: JSON-able dict that `replay.py` can execute"""
        for k2, _, _ in self.violations:
            if k2 == key:
                return
        self.violations.append((key, text, replay))

    def inconc(self, text):
        self.inconclusive.append(text)

    def error(self, text):
        self.harness_errors.append(text)

    # --- finishing
    def finish(self, replay_fn=None):
        """replay every candidate violation on the plain code, print the verdict lines, write evidence,
        return the exit code"""
        known = [k for k in load_known() if k.get("property") == self.pid and k.get("status", "open") == "open"]
        os.makedirs(REPLAYS, exist_ok=True)
        import glob
        for old in glob.glob(os.path.join(REPLAYS, "%s-*.json" % self.pid)):
            os.remove(old)
        n_viol = 0
        n_known = 0
        lines = []
        seen_known = set()
        for i, (key, text, replay) in enumerate(self.violations):
            path = os.path.join(REPLAYS, "%s-%d.json" % (self.pid, i))
            doc = dict(property=self.pid, key=key, text=text, replay=replay)
            with open(path, "w") as f:
                json.dump(doc, f, indent=1, default=str)
            if replay_fn is not None:
                try:
                    ok, detail = replay_fn(replay)
                except Exception as e:   # replay machinery failed
                    ok, detail = None, "replay crashed: %r" % (e,)
                if ok is not True:
                    self.harness_errors.append("counterexample did not reproduce on the plain code (%s): %s / %s"
                                               % (detail, text, json.dumps(key, default=str)))
                    continue
                doc["replay_detail"] = detail
                with open(path, "w") as f:
                    json.dump(doc, f, indent=1, default=str)
            kf = None
            for k in known:
                if _match(k["key"], key):
                    kf = k
                    break
            if kf is not None:
                n_known += 1
                kid = json.dumps(kf["key"], sort_keys=True)
                if kid not in seen_known:
                    seen_known.add(kid)
                    lines.append("KNOWN-FINDING: property=%s %s" % (self.pid, kf["what"]))
            else:
                n_viol += 1
                lines.append("VIOLATION property=%s replay=%s" % (self.pid, path))
                lines.append("  # %s" % text)
        for l in lines:
            print(l)
        for t in self.inconclusive:
            print("INCONCLUSIVE: %s" % t)
        for t in self.harness_errors:
            print("HARNESS-ERROR: %s" % t)
        cov = dict(self.coverage)
        for dis in STATS.cross_disagree:
            self.harness_errors.append("z3 and cvc5 disagree on an obligation: %s" % dis)
            print("HARNESS-ERROR: z3 and cvc5 disagree on an obligation: %s" % dis)
        st = STATS.as_dict()
        cov.setdefault("samples", self.samples or ["(no samples recorded)"])
        cov["functions_encoded"] = self.functions
        cov["bounds"] = self.bounds
        cov["outside_claim"] = self.outside
        cov["stubs_and_models"] = self.stubs
        cov["solver"] = st
        cov["counts"] = self.counts
        cov["known_findings_reproduced"] = n_known
        cov["inconclusive"] = self.inconclusive[:50]
        cov["harness_errors"] = self.harness_errors[:50]
        cov.setdefault("obligations", st["obligations"])
        cov.setdefault("discharged", st["unsat"])
        cov.setdefault("evaluations", max(1, st["obligations"] + st["paths"]))
        cov.setdefault("distinct_nontrivial", max(2, st["distinct_query_shapes"]))
        cov.setdefault("rule", "each evaluation is one solver obligation or one symbolic path of the real code; "
                               "distinct = distinct obligation labels")
        from . import loader
        cov["source_hashes"] = loader.source_hashes()
        ev = dict(property_id=self.pid, tier=self.tier, seed=self.seed, level=self.level, coverage=cov,
                  assumptions=self.assumptions, wall_s=round(time.time() - self.t0, 2), violations=n_viol)
        os.makedirs(EVID, exist_ok=True)
        with open(os.path.join(EVID, "%s.json" % self.pid), "w") as f:
            json.dump(ev, f, indent=1, default=str)
        if self.harness_errors or self.inconclusive:
            code = EXIT_HARNESS
        else:
            code = EXIT_OK
        if n_viol:
            code = EXIT_VIOLATION
        print("%s tier=%s: %s; %d proof obligations (%d discharged/unsat, %d refuted/sat, %d unknown), %d witness queries, %d paths, "
              "%d known finding(s), %d violation(s), %.1fs" % (self.pid, self.tier,
                                                               {0: "HELD within bounds", 1: "VIOLATED", 3: "INCONCLUSIVE/HARNESS-ERROR"}[code],
                                                               st["obligations"], st["unsat"], st["sat"], st["unknown"], st["witness_queries"],
                                                               st["paths"], n_known, n_viol, time.time() - self.t0))
        return code


def guarded(fn):
    """pool workers must never die with an exception (a dead worker hangs the pool): turn any failure into a
    partial result that makes the check INCONCLUSIVE"""
    import functools
    import traceback

    @functools.wraps(fn)
    def w(*a, **k):
        from . import explorer
        try:
            return fn(*a, **k)
        except BaseException as e:      # noqa
            tb = traceback.format_exc().strip().splitlines()
            return dict(violations=[], inconclusive=[], errors=["worker %s%r crashed: %r | %s" % (fn.__name__, a[:1], e, " / ".join(tb[-4:]))],
                        samples=[], stats=explorer.STATS, crashed=True)
    return w


def merge_part(rep, part):
    from . import explorer
    for v in part.get("violations", []):
        rep.violation(*v)
    rep.inconclusive += part.get("inconclusive", [])
    rep.harness_errors += part.get("errors", [])
    for s in part.get("samples", []):
        rep.sample(s)
    if part.get("stats") is not None:
        explorer.STATS.merge(part["stats"])
    for k, n in (part.get("counts") or {}).items():
        rep.count(k, n)


def run_jobs(rep, fn, jobs, nproc=None, timeout_s=600, merge=True):
    """run fn(job) for every job in a fork pool; a job that does not answer within timeout_s (or whose worker died)
    makes the check INCONCLUSIVE instead of hanging it.  Returns the list of partial results (None for lost jobs)."""
    import multiprocessing as mp
    import time
    nproc = nproc or max(1, min(16, os.cpu_count() or 1))
    ctx = mp.get_context("fork")
    pool = ctx.Pool(min(nproc, max(1, len(jobs))))
    out = []
    try:
        rs = [pool.apply_async(fn, (j,)) for j in jobs]
        deadline = time.time() + timeout_s
        for j, r in zip(jobs, rs):
            try:
                part = r.get(timeout=max(1.0, deadline - time.time()))
            except mp.TimeoutError:
                rep.inconc("job %r of %s did not answer within %d s" % (j if len(repr(j)) < 80 else repr(j)[:80], fn.__name__, timeout_s))
                out.append(None)
                continue
            except BaseException as e:      # result could not be transported
                rep.error("job %r of %s failed: %r" % (j if len(repr(j)) < 80 else repr(j)[:80], fn.__name__, e))
                out.append(None)
                continue
            if merge and isinstance(part, dict):
                merge_part(rep, part)
            out.append(part)
    finally:
        pool.terminate()
        pool.join()
    return out
