"""C01 - decoded fields match the canboat definition for every PGN and payload.
Translation validation: every generated decode_pgn_* is executed symbolically on a fully symbolic payload
(one path per definition thanks to kernel state-merging) and compared, field by field, with the database."""
import os
import time
import z3

from . import loader, envmodels, symcoll, textsym, numkernel
from .common import Report, guarded, merge_part
from .db import db
from .explorer import explore, prove, satisfiable, Unsupported, EX
from .proxies import (SymInt, SymFloat, SymOpt, SymBool, SymBytes, summarize, truth, ev, merge_paths,
                      register_symbolic, is_symbolic)
from .numkernel import Sig, eq_term
from . import proxies as P

PID = "C01"
NUMERIC = ("NUMBER", "MMSI", "PGN", "DURATION")
SUPPORTED = NUMERIC + ("LOOKUP", "BITLOOKUP", "RESERVED", "SPARE", "BINARY", "STRING_FIX", "FLOAT", "TIME", "DATE")


class StopDefinition(BaseException):
    """the definition reaches a field this family cannot encode (variable position / length)"""


class SymFlags:
    def __init__(self, table, raw):
        self.table, self.raw = table, raw


class SymBinary:
    def __init__(self, value):
        self.value = value


class SymText:
    def __init__(self, items, ops=(), encoding=None):
        self.items, self.ops, self.encoding = items, tuple(ops), encoding

    def split(self, sep=None, maxsplit=-1):
        return [SymText(self.items, self.ops + (("cut", sep),)), ""]

    def strip(self, *a):
        return SymText(self.items, self.ops + (("strip",),))


register_symbolic(SymFlags, SymBinary, SymText)


class Harness:
    """instrumented repo with the kernel wrappers of C01 installed"""

    def __init__(self):
        symcoll.BIG = 0
        self.R = loader.load()
        R = self.R
        envmodels.install(R.utils)
        self.ns = R.pgns.__dict__
        self.calls = []
        self.last_msg = [None]
        self.logged_deferred = set()
        self.keep = []
        U = R.utils
        self.real = {k: getattr(U, k) for k in ("decode_number", "decode_float", "decode_time", "decode_date",
                                                 "decode_bit_lookup", "decode_string_fix", "decode_int")}
        self.real["int_to_bytes"] = R.message.int_to_bytes
        ns = self.ns

        def logged(name, fn):
            s = summarize(fn)

            def w(*a, **kw):
                if not any(is_symbolic(x) for x in a) and not any(is_symbolic(x) for x in kw.values()):
                    return fn(*a, **kw)
                ex = EX()
                n0 = len(ex.deferred)
                r = s(*a, **kw)
                g = [d[0] for d in ex.deferred[n0:]]
                self.logged_deferred.update(id(d) for d in ex.deferred[n0:])
                self.keep.extend(ex.deferred[n0:])
                self.calls.append((name, a, r, z3.Or(*g) if g else z3.BoolVal(False)))
                return r
            return w
        for k in ("decode_number", "decode_float", "decode_time", "decode_date"):
            ns[k] = logged(k, self.real[k])
        for k in ("encode_number", "encode_float", "encode_time", "encode_date"):
            self.real[k] = getattr(U, k)
            ns[k] = logged(k, self.real[k])

        def bit_lookup(raw, table):
            if not is_symbolic(raw):
                return self.real["decode_bit_lookup"](raw, table)
            return SymFlags(table, raw)
        ns["decode_bit_lookup"] = bit_lookup

        def itb(value):
            if not is_symbolic(value):
                return self.real["int_to_bytes"](value)
            return SymBinary(value)
        ns["int_to_bytes"] = itb

        def string_fix(data_raw, off, ln):
            if not is_symbolic(data_raw):
                return self.real["decode_string_fix"](data_raw, off, ln)
            old = SymBytes.decode
            SymBytes.decode = lambda self_, *a, **k: SymText(list(self_.items))
            try:
                return self.real["decode_string_fix"](data_raw, off, ln)
            finally:
                SymBytes.decode = old
        ns["decode_string_fix"] = string_fix

        def dint(data_raw, off, ln):
            if is_symbolic(ln) or (is_symbolic(off) and not self.var_mode):
                raise StopDefinition("field with data-dependent length/position")
            return self.real["decode_int"](data_raw, off, ln)
        ns["decode_int"] = dint

        self.var_mode = False

        def mk_str(name):
            realfn = getattr(U, name)

            def w(*a):
                if not self.var_mode:
                    raise StopDefinition("variable-length string")
                old = SymBytes.decode
                SymBytes.decode = lambda self_, enc="utf-8", **k: SymText(list(self_.items), encoding=enc)
                try:
                    return realfn(*a)
                finally:
                    SymBytes.decode = old
            return w
        ns["decode_string_lz"] = mk_str("decode_string_lz")
        ns["decode_string_lau"] = mk_str("decode_string_lau")
        orig_msg = ns["NMEA2000Message"]

        def mk(*a, **k):
            m = orig_msg(*a, **k)
            self.last_msg[0] = m
            return m
        ns["NMEA2000Message"] = mk

    def run_def(self, fn, payload):
        self.calls = []
        self.logged_deferred = set()
        self.keep = []
        self.last_msg[0] = None
        try:
            m = fn(payload)
            return ("full", m, list(self.calls), (set(self.logged_deferred), list(self.keep)))
        except StopDefinition:
            return ("prefix", self.last_msg[0], list(self.calls), (set(self.logged_deferred), list(self.keep)))


def layout(p):
    """payload term built from one variable per fixed-position field (+ gap and garbage variables)"""
    fixed = [f for f in p.fields if f.fixed]
    end = max([f.off + f.len for f in fixed], default=0)
    allfixed = all(f.fixed for f in p.fields)
    if p.length:
        W = max(8 * p.length, end)
    elif allfixed:
        W = (end + 7) // 8 * 8
    else:
        W = max(8 * (223 if p.fast else 8), end)
    W = max(W, 8)
    segs = []     # (lo, len, var)
    pos = 0
    fvars = {}
    overlap = False
    for f in sorted(fixed, key=lambda f: f.off):
        if f.off < pos:
            overlap = True
            break
        if f.off > pos:
            segs.append(z3.BitVec("gap_%d" % pos, f.off - pos))
        v = z3.BitVec("f%d" % f.order, f.len)
        fvars[f.order] = v
        segs.append(v)
        pos = f.off + f.len
    if overlap:
        pv = z3.BitVec("payload", W + 16)
        fvars = {f.order: z3.Extract(f.off + f.len - 1, f.off, pv) for f in fixed}
        return pv, fvars, W
    if pos < W:
        segs.append(z3.BitVec("tail_%d" % pos, W - pos))
    segs.append(z3.BitVec("garbage", 16))
    pv = z3.Concat(*reversed(segs)) if len(segs) > 1 else segs[0]
    return pv, fvars, W


class FieldView:
    """a database field placed at a computed position (definitions with variable-length strings, lengths pinned)"""

    def __init__(self, f, off, ln):
        self.__dict__.update(f.__dict__)
        self._f = f
        self.off, self.len = off, ln
        self._id = f.id

    @property
    def id(self):
        return self._id

    @property
    def fixed(self):
        return True

    def flt(self, name):
        return self._f.flt(name)


def layout_var(p, strlen):
    """payload for a definition with STRING_LAU/STRING_LZ fields when every string has `strlen` text bytes:
    returns (payload term, {order: var}, views, assumptions) or None when the definition cannot be laid out"""
    views = []
    ro = 0
    segs = []
    fvars = {}
    assume = []
    pos = 0
    for f in p.fields:
        off = f.off if f.off is not None else ro
        if off is None or off < pos:
            return None
        if off > pos:
            segs.append(z3.BitVec("gap_%d" % pos, off - pos))
        if f.type == "STRING_LAU":
            ln = 8 * (2 + strlen)
            v = z3.BitVec("f%d" % f.order, ln)
            assume += [z3.Extract(7, 0, v) == 2 + strlen, z3.Extract(15, 8, v) == 1]
            if strlen:
                assume.append(z3.Extract(ln - 1, ln - 8, v) != 0)      # last text byte non-zero: nothing is trimmed
        elif f.type == "STRING_LZ":
            ln = 8 * (1 + strlen)
            v = z3.BitVec("f%d" % f.order, ln)
            assume.append(z3.Extract(7, 0, v) == strlen)
            if strlen:
                assume.append(z3.Extract(ln - 1, ln - 8, v) != 0)
        elif f.len is not None:
            ln = f.len
            v = z3.BitVec("f%d" % f.order, ln)
        else:
            return None
        fvars[f.order] = v
        segs.append(v)
        views.append(FieldView(f, off, ln))
        pos = off + ln
        ro = pos
    W = (pos + 7) // 8 * 8
    if pos < W:
        segs.append(z3.BitVec("tail_%d" % pos, W - pos))
    # no garbage above: the string kernels look at everything above their offset (minimal-length to_bytes)
    pv = z3.Concat(*reversed(segs)) if len(segs) > 1 else segs[0]
    return pv, fvars, views, assume, W


@guarded
def _var_worker(idxs):
    """definitions with variable-length strings: string lengths pinned (0 and 3 text bytes), everything else symbolic"""
    from . import explorer
    explorer.STATS.__init__()
    D, H = _G["D"], _G["H"]
    rep = Report(PID, _G["tier"], 0, "translation_validation")
    outside = {}
    sigs = {}
    nd = nf = 0

    def out(reason, n=1):
        outside[reason] = outside.get(reason, 0) + n
    for i in idxs:
        p = D.pgns[i]
        fn = H.ns.get("decode_pgn_%s" % D.func_suffix(p))
        if fn is None:
            continue
        for strlen in (0, 3):
            lay = layout_var(p, strlen)
            if lay is None:
                out("variable-length definition that cannot be laid out (field without length)")
                break
            pv, fvars, views, assume, W = lay
            payload = SymInt(z3.ZeroExt(1, pv))
            H.var_mode = True
            try:
                paths, ex = explore(lambda: H.run_def(fn, payload), max_paths=256, assumptions=assume)
            except Unsupported as e:
                rep.inconc("%s (strings of %d bytes): %s" % (p.id, strlen, e))
                continue
            finally:
                H.var_mode = False
            nd += 1
            pview = type("PV", (), {})()
            pview.__dict__.update(p.__dict__)
            pview.fields = views
            for pa in paths:
                st0, m0 = satisfiable(z3.And(*([c for c in pa.pc if not explorer.has_fp(c)] + assume)))
                if st0 != "sat":
                    continue
                if pa.kind == "raise":
                    if "not supported" in str(pa.value):
                        out("definition contains a field type the generator does not support")
                        continue
                    pl = m0.eval(pv, True).as_long()
                    rep.violation({"kind": "decoder-raises", "def": p.id, "exc": type(pa.value).__name__},
                                  "%s raises %s: %s for payload %#x (strings of %d bytes)" % (p.id, type(pa.value).__name__, str(pa.value)[:60], pl, strlen),
                                  {"kind": "decode", "def": p.id, "payload": hex(pl), "expect": "no-raise"})
                    continue
                if pa.kind != "return":
                    rep.inconc("%s: path ended with %s" % (p.id, pa.kind))
                    continue
                mode, m, calls, logged_def = pa.value
                H.logged_deferred = logged_def[0]
                if m is None or mode != "full":
                    rep.inconc("%s (strings of %d bytes): decoder stopped early" % (p.id, strlen))
                    continue
                try:
                    n = check_message(rep, D, H, pview, m, calls, pa, pv, fvars, mode, sigs, out, extra_assume=assume)
                    nf += n[0]
                except Unsupported as e:
                    rep.inconc("%s: %s" % (p.id, e))
    return dict(violations=rep.violations, inconclusive=rep.inconclusive, errors=rep.harness_errors, outside=outside,
                sigs={}, programs=nd, fields=nf, dis=0, samples=[{"variable_definition_runs": nd, "fields": nf}] if nd else [], stats=explorer.STATS)


_MEMO = {}


def canon_prove(claim, assumptions, fvar, label, timeout_ms=60000):
    """prove with memoisation on the canonical (variable-renamed) SMT text"""
    if fvar is not None and z3.is_const(fvar):
        x = z3.BitVec("x%d" % fvar.size(), fvar.size())
        claim = z3.substitute(claim, (fvar, x))
        assumptions = [z3.substitute(a, (fvar, x)) for a in assumptions]
    key = (claim.sexpr(), tuple(a.sexpr() for a in assumptions))
    if key in _MEMO:
        return _MEMO[key]
    r = prove(claim, assumptions, label=label, timeout_ms=timeout_ms)
    _MEMO[key] = r
    return r


_G = {}


def eval_proxy(v, pairs):
    """evaluate a proxy value under a concrete assignment of the payload variables (translator validation)"""
    from .envmodels import SymDate, SymTime
    import datetime
    if v is None or not is_symbolic(v):
        return v
    if isinstance(v, SymOpt):
        n = z3.simplify(z3.substitute(v.none, *pairs))
        if z3.is_true(n):
            return None
        if not z3.is_false(n):
            raise Unsupported("cannot evaluate none-condition")
        return eval_proxy(v.inner, pairs)
    if isinstance(v, SymInt):
        t = z3.simplify(z3.substitute(v.t, *pairs))
        if not z3.is_bv_value(t):
            raise Unsupported("cannot evaluate int term")
        return t.as_signed_long()
    if isinstance(v, SymFloat):
        return P.fpval_to_float(z3.simplify(z3.substitute(v.t, *pairs)))
    if isinstance(v, symcoll.SymMap):
        k = eval_proxy(v.key, pairs)
        return v.mapping.get(k, v.default)
    if isinstance(v, SymDate):
        return datetime.date.fromordinal(eval_proxy(v.ordinal, pairs))
    if isinstance(v, SymTime):
        return datetime.time(eval_proxy(v.hour, pairs), eval_proxy(v.minute, pairs), eval_proxy(v.second, pairs))
    if isinstance(v, SymBinary):
        x = eval_proxy(v.value, pairs)
        return x.to_bytes((x.bit_length() + 8) // 8 or 1, "big")
    raise Unsupported("no evaluator for %s" % type(v).__name__)


def validate_translation(rep, D, p, m, pa, pv, fvars, rnd, N):
    """Serval-style validation of the symbolic run: evaluate its terms under concrete payloads and compare with the
    plain code.  A difference is a HARNESS-ERROR (the engine misrepresents the code), never a property verdict."""
    import math
    vars_ = [v for v in z3util_vars(pv)]
    fn = N.pgns.__dict__.get("decode_pgn_%s" % D.func_suffix(p))
    nval = 0
    for trial in range(2):
        pairs = []
        byvar = {}
        for f in p.fields:
            v = fvars.get(f.order)
            if v is None or not z3.is_const(v):
                continue
            if f.res is not None and f.type in NUMERIC + ("TIME", "DATE"):
                sg = Sig(f)
                lo, hi = sg.raw_range()
                lo = lo if lo is not None else (-(1 << (f.len - 1)) if f.signed else 0)
                hi = hi if hi is not None else ((1 << (f.len - 1)) - 1 if f.signed else (1 << f.len) - 1)
                lo = max(lo, -(1 << (f.len - 1)) if f.signed else 0)
                hi = min(hi, (1 << (f.len - 1)) - 1 if f.signed else (1 << f.len) - 1)
                raw = rnd.choice([lo, hi, rnd.randint(lo, hi), sg.sentinel if trial else rnd.randint(lo, hi)]) & ((1 << f.len) - 1)
            elif f.match is not None:
                raw = int(f.match)
            else:
                raw = rnd.getrandbits(f.len)
            byvar[v.get_id()] = raw
        for v in vars_:
            val = byvar.get(v.get_id(), rnd.getrandbits(v.size()) if not v.decl().name().startswith("garbage") else 0)
            pairs.append((v, z3.BitVecVal(val, v.size())))
        payload = z3.simplify(z3.substitute(pv, *pairs)).as_long()
        try:
            guards = [z3.simplify(z3.substitute(g, *pairs)) for g, _ in pa.deferred]
            sym_raises = any(z3.is_true(g) for g in guards)
            if any(not (z3.is_true(g) or z3.is_false(g)) for g in guards):
                continue
            pc_ok = all(z3.is_true(z3.simplify(z3.substitute(c, *pairs))) for c in pa.pc)
            if not pc_ok:
                continue
        except Exception:
            continue
        try:
            pm = fn(payload)
            plain_raises = False
        except Exception:
            pm, plain_raises = None, True
        if sym_raises != plain_raises:
            rep.error("translator validation %s payload %#x: symbolic run says raises=%s, plain code raises=%s" % (p.id, payload, sym_raises, plain_raises))
            continue
        if plain_raises:
            nval += 1
            continue
        for f, sf, pf in zip(p.fields, m.fields, pm.fields):
            if f.type not in SUPPORTED or not f.fixed or f.type in ("STRING_FIX", "BITLOOKUP"):
                continue
            try:
                sv = eval_proxy(sf.value, pairs)
            except Unsupported:
                continue
            pv_ = pf.value
            same = (sv == pv_) or (isinstance(sv, float) and isinstance(pv_, float) and math.isnan(sv) and math.isnan(pv_))
            if not same or (type(sv) is not type(pv_) and not (isinstance(sv, (int, float)) and isinstance(pv_, (int, float)) and type(sv) is type(pv_))):
                rep.error("translator validation %s.%s payload %#x: symbolic evaluation gives %r, plain code gives %r" % (p.id, f.id, payload, sv, pv_))
        nval += 1
    return nval


def z3util_vars(t):
    from z3 import z3util
    return z3util.get_vars(t)


@guarded
def _defs_worker(idxs):
    """check a subset of definitions (runs in a forked worker); returns picklable partial results"""
    from . import explorer
    explorer.STATS.__init__()
    D, H = _G["D"], _G["H"]
    rep = Report(PID, _G["tier"], 0, "translation_validation")
    outside = {}
    sigs = {}
    programs = fields_checked = disagreements = 0
    nvalid = 0

    def out(reason, n=1):
        outside[reason] = outside.get(reason, 0) + n
    for i in idxs:
        p = D.pgns[i]
        group = D.groups[p.pgn]
        if len(group) > 1 and not D.multi(p.pgn):
            sel = [q for q in group if not q.fallback]
            sel = sel[0] if sel else group[0]
            if p is not sel:
                out("definition shadowed by another definition of the same PGN without match fields (never selected)")
                continue
        name = "decode_pgn_%s" % D.func_suffix(p)
        fn = H.ns.get(name)
        if fn is None:
            rep.violation({"kind": "decoder-missing", "def": p.id}, "no function %s" % name, {"kind": "missing", "name": name})
            continue
        pv, fvars, W = layout(p)
        payload = SymInt(z3.ZeroExt(1, pv))
        try:
            paths, ex = explore(lambda: H.run_def(fn, payload), max_paths=64)
        except Unsupported as e:
            rep.inconc("%s: %s" % (p.id, e))
            continue
        programs += 1
        if ex.truncated:
            rep.inconc("%s: more than 64 paths" % p.id)
        unsupported = [f for f in p.fields if f.type not in SUPPORTED or (f.type == "BINARY" and f.len is None)]
        for pa in paths:
            if pa.kind == "raise":
                msg = str(pa.value)
                if "not supported" in msg and [f for f in p.fields if f.type not in SUPPORTED]:
                    out("definition contains a field type the generator does not support", 1)
                    break
                varbin = [f for f in p.fields if f.type == "BINARY" and f.len is None and f.d.get("BitLengthField")]
                if varbin and isinstance(pa.value, AssertionError):
                    lf = p.fields[varbin[0].d["BitLengthField"] - 1]
                    if lf.order in fvars:
                        st0, _m0 = prove(fvars[lf.order] == z3.BitVecVal(Sig(lf).sentinel, lf.len), pa.pc, label="varbin-length-na")
                        if st0 == "unsat":
                            out("payloads whose BINARY length field is 'not available' (not well-formed)")
                            continue
                st, m = satisfiable(pa.cond())
                pl = m.eval(pv, True).as_long() if m is not None else 0
                key = {"kind": "decoder-raises", "def": p.id, "exc": type(pa.value).__name__}
                rep.violation(key, "%s raises %s: %s for payload %#x" % (p.id, type(pa.value).__name__, msg[:80], pl),
                              {"kind": "decode", "def": p.id, "payload": hex(pl), "expect": "no-raise"})
                disagreements += 1
                continue
            if pa.kind != "return":
                rep.inconc("%s: path ended with %s" % (p.id, pa.kind))
                continue
            mode, m, calls, logged_def = pa.value
            H.logged_deferred = logged_def[0]
            if m is None:
                rep.error("%s: no message captured" % p.id)
                continue
            try:
                n = check_message(rep, D, H, p, m, calls, pa, pv, fvars, mode, sigs, out)
                if mode == "full":
                    nvalid += validate_translation(rep, D, p, m, pa, pv, fvars, _G["rnd"], _G["N"])
            except Unsupported as e:
                rep.inconc("%s: %s" % (p.id, e))
                continue
            fields_checked += n[0]
            disagreements += n[1]
        if len(rep.samples) < 2 and paths and paths[0].kind == "return":
            rep.sample({"definition": p.id, "pgn": p.pgn, "payload_bits": W, "paths": len(paths), "fields": len(p.fields)})
    return dict(violations=rep.violations, inconclusive=rep.inconclusive, errors=rep.harness_errors, outside=outside,
                sigs={k: v for k, v in sigs.items()}, programs=programs, fields=fields_checked, dis=disagreements,
                samples=rep.samples, stats=explorer.STATS, nvalid=nvalid)


@guarded
def _sig_worker(item):
    from . import explorer
    explorer.STATS.__init__()
    sig, where = item
    H = _G["H"]
    try:
        res = numkernel.check_decode_number(H.R.utils, sig, None, _G["tier"])
        # witnesses are Python ints already
        return sig, where, res, None, explorer.STATS
    except Unsupported as e:
        return sig, where, None, str(e), explorer.STATS


def run(tier, seed):
    import multiprocessing as mp
    from . import explorer
    rep = Report(PID, tier, seed, "translation_validation")
    D = db()
    H = Harness()
    R = H.R
    import random
    from .plain import plain
    _G.update(D=D, H=H, tier=tier, rnd=random.Random(seed), N=plain())
    rep.functions = ["pgns.decode_pgn_* (every definition)", "utils.decode_number", "utils.decode_int", "utils.decode_float",
                     "utils.decode_time", "utils.decode_date", "utils.decode_string_fix", "utils.decode_bit_lookup (kernel level)",
                     "message.int_to_bytes (kernel level)", "message.NMEA2000Message/NMEA2000Field",
                     "decoder._call_decode_function (payload bytes -> integer, addressing; per-PGN function replaced by a recorder)"]
    rep.stubs = ["decode_bit_lookup on symbolic bits -> SymFlags(table, bits); the real loop is checked at kernel level for <= 8-bit arguments",
                 "int_to_bytes on symbolic bits -> SymBinary(bits); checked at kernel level for <= 32-bit arguments",
                 "bytes.decode in decode_string_fix -> opaque text over exactly those bytes (clean-up rule outside the claim)",
                 "struct.pack/unpack '<I'/'<f' -> bit reinterpretation binary32<->bits", "date/time/timedelta -> SymDate/SymTime contract models",
                 "table.get(symbolic key) -> SymMap(table, key)"]
    rep.bounds = {"payload": "all bit patterns of 8*Length (+16 garbage) bits; 8*223 for fast PGNs with variable fields",
                  "definitions": len(D.pgns)}
    nproc = max(1, min(16, os.cpu_count() or 1))
    order = sorted(range(len(D.pgns)), key=lambda i: -len(D.pgns[i].fields))
    chunks = [order[k::nproc] for k in range(nproc)]
    ctx = mp.get_context("fork")
    with ctx.Pool(nproc) as pool:
        parts = pool.map(_defs_worker, chunks, chunksize=1)
        programs = fields_checked = disagreements = 0
        outside = {}
        sigs = {}
        for part in parts:
            for v in part["violations"]:
                rep.violation(*v)
            rep.inconclusive += part["inconclusive"]
            rep.harness_errors += part["errors"]
            for k, n in part["outside"].items():
                outside[k] = outside.get(k, 0) + n
            for k, v in part["sigs"].items():
                sigs.setdefault(k, v)
            programs += part["programs"]
            fields_checked += part["fields"]
            disagreements += part["dis"]
            for smp in part["samples"]:
                rep.sample(smp)
            explorer.STATS.merge(part["stats"])
            rep.count("translator_validation_payloads", part.get("nvalid", 0))
        # definitions with variable-length strings, string lengths pinned
        var_defs = [i for i, q in enumerate(D.pgns) if any(f.type in ("STRING_LAU", "STRING_LZ") for f in q.fields)]
        vparts = pool.map(_var_worker, [var_defs[k::nproc] for k in range(nproc) if var_defs[k::nproc]], chunksize=1)
        for part in vparts:
            for v in part["violations"]:
                rep.violation(*v)
            rep.inconclusive += part["inconclusive"]
            rep.harness_errors += part["errors"]
            for k, n in part.get("outside", {}).items():
                outside[k] = outside.get(k, 0) + n
            rep.count("variable_definition_runs", part.get("programs", 0))
            rep.count("fields_checked_in_variable_definitions", part.get("fields", 0))
            explorer.STATS.merge(part["stats"])
        rep.count("definitions_run", programs)
        rep.count("fields_checked", fields_checked)
        # ---- kernel-level obligations per numeric signature
        items = [sigs[k] for k in sorted(sigs, key=str)]
        for sig, where, res, err, st_ in pool.imap_unordered(_sig_worker, items, chunksize=1):
            explorer.STATS.merge(st_)
            if err is not None:
                rep.inconc("kernel %s: %s" % (sig.describe(), err))
                continue
            for kind, st, wit in res:
                if st == "unknown":
                    rep.inconc("kernel %s / %s: solver gave no answer" % (sig.describe(), kind))
                elif st == "sat":
                    disagreements += 1
                    key = {"kind": "number-" + kind, "sig": sig.describe()}
                    rep.violation(key, "decode_number %s: %s at raw %s (first use: %s.%s)" % (sig.describe(), kind, wit, where[0], where[1]),
                                  {"kind": "number", "what": kind, "raw": wit, "def": where[0], "field": where[1]})
    rep.count("numeric_signatures", len(sigs))
    kernel_checks(rep, H, tier)
    glue_check(rep, H, tier)
    for r_, n_ in outside.items():
        rep.outside.append("%s: %d" % (r_, n_))
    rep.coverage.update(programs=programs, disagreements_checked=disagreements, fields_checked=fields_checked,
                        explanation="programs = generated per-definition decoders executed symbolically")
    rep.assumptions = ["payload is a non-negative integer (int.from_bytes)", "canboat.json is the oracle",
                       "a wide symbolic dict key only matches symbolic keys (no such lookup occurs in this check)"]
    return rep.finish(replay)


def check_message(rep, D, H, p, m, calls, pa, pv, fvars, mode, sigs, out, extra_assume=()):
    nchk = 0
    nbad = 0

    def bad(key, text, rp):
        nonlocal nbad
        nbad += 1
        rep.violation(key, text, rp)

    def model_payload(model):
        return hex(model.eval(pv, True).as_long())
    # --- message metadata
    from datetime import timedelta
    exp_ttl = timedelta(milliseconds=p.interval) if p.interval is not None else None
    meta = (m.PGN, m.id, m.description, m.ttl)
    if meta != (p.pgn, p.id, p.description, exp_ttl):
        bad({"kind": "metadata", "def": p.id}, "%s: message metadata %r" % (p.id, meta),
            {"kind": "meta", "def": p.id, "payload": "0x0"})
    fields = list(m.fields)
    if mode == "full" and len(fields) != len(p.fields):
        bad({"kind": "field-count", "def": p.id}, "%s: %d fields, database has %d" % (p.id, len(fields), len(p.fields)),
            {"kind": "meta", "def": p.id, "payload": "0x0"})
    if mode == "prefix":
        out("fields at or after the first variable-length field", len(p.fields) - len(fields))
    raise_by_obj = {}
    for (name, a, r, g) in calls:
        raise_by_obj[id(r)] = (name, a, g)
    for f, got in zip(p.fields, fields):
        # metadata of the field
        from_db = (f.id, f.name, f.description, f.unit, f.pq, f.type, bool(f.key))
        pq = got.physical_quantities.name if got.physical_quantities is not None else None
        have = (got.id, got.name, got.description, got.unit_of_measurement, pq, got.type.name, bool(got.part_of_primary_key))
        if from_db != have:
            bad({"kind": "field-metadata", "def": p.id, "field": f.id}, "%s.%s: field metadata %r, database %r" % (p.id, f.id, have, from_db),
                {"kind": "meta", "def": p.id, "payload": "0x0"})
        if f.type in ("STRING_LAU", "STRING_LZ") and f.fixed and isinstance(getattr(f, "_f", None), object) and hasattr(f, "_f"):
            # pinned-length run: the text is made of exactly the field's own text bytes
            fv = fvars[f.order]
            hdr = 2 if f.type == "STRING_LAU" else 1
            v = got.value
            ntext = f.len // 8 - hdr
            if ntext == 0:
                ok = (v == "" or (isinstance(v, SymText) and not v.items))
                if not ok:
                    rep.violation({"kind": "string-bits", "def": p.id, "field": f.id}, "%s.%s: empty string decodes as %r" % (p.id, f.id, v),
                                  {"kind": "decode", "def": p.id, "payload": "0x0", "expect": "no-raise"})
            elif not isinstance(v, SymText) or len(v.items) != ntext:
                st_, m_ = prove(z3.BoolVal(False), list(extra_assume) + list(pa.pc))
                rep.violation({"kind": "string-bits", "def": p.id, "field": f.id}, "%s.%s: text has %s characters, field has %d" % (p.id, f.id, len(v.items) if isinstance(v, SymText) else "?", ntext),
                              {"kind": "field", "def": p.id, "field": f.id, "payload": model_payload(m_) if m_ is not None else "0x0", "what": "string-bits", "off": f.off, "len": f.len, "index": p.fields.index(f)})
            else:
                cs = [eq_term(b, SymInt(z3.ZeroExt(1, z3.Extract(8 * (hdr + i_) + 7, 8 * (hdr + i_), fv)))) for i_, b in enumerate(v.items)]
                st_, m_ = prove(z3.And(*cs), list(extra_assume) + list(pa.pc), label="string-bits/%s" % f.type)
                if st_ == "sat":
                    rep.violation({"kind": "string-bits", "def": p.id, "field": f.id}, "%s.%s: text is not made of the field's own bytes" % (p.id, f.id),
                                  {"kind": "field", "def": p.id, "field": f.id, "payload": model_payload(m_), "what": "string-bits", "off": f.off, "len": f.len, "index": p.fields.index(f)})
            nchk += 1
            continue
        if f.type == "INDIRECT_LOOKUP" and f.fixed and f.order in fvars and f.d.get("LookupIndirectEnumerationFieldOrder"):
            # value = table[(bits of the field named by LookupIndirectEnumerationFieldOrder, own bits)], None when the pair is not listed
            other = p.fields[f.d["LookupIndirectEnumerationFieldOrder"] - 1]
            table = D.indirect.get(f.d.get("LookupIndirectEnumeration"), {})
            fv = fvars[f.order]
            nchk += 1
            lab = "INDIRECT_LOOKUP/%d" % f.len

            def ind_violation(kind, model, text):
                rp = {"kind": "field", "def": p.id, "field": f.id, "payload": model_payload(model) if model is not None else "0x0", "what": kind,
                      "off": f.off, "len": f.len, "index": p.fields.index(f)}
                bad({"kind": kind, "def": p.id, "field": f.id}, "%s.%s (%s): %s" % (p.id, f.id, f.type, text), rp)
            st, mm = prove(eq_term(got.raw_value, SymInt(z3.ZeroExt(1, fv))), list(extra_assume), label=lab + "/raw-bits")
            if st == "sat":
                ind_violation("raw-bits", mm, "raw_value is not the field's bits")
            elif st == "unknown":
                rep.inconc("%s.%s raw-bits undecided" % (p.id, f.id))
            v = got.value
            if not isinstance(v, symcoll.SymMap) or other.order not in fvars or not other.fixed:
                ind_violation("lookup-shape", None, "value is %r, not a lookup keyed by two fields" % type(v).__name__)
            else:
                names = sorted({n_ for n_ in list(table.values()) + [x_ for x_ in v.mapping.values() if isinstance(x_, str)]})

                def idx(name):
                    return z3.IntVal(names.index(name) + 1 if name is not None else 0)
                spec = idx(None)
                for ks, nm in table.items():
                    a_, b_ = (int(t_) for t_ in ks.split("_"))
                    if a_ < (1 << other.len) and b_ < (1 << f.len):
                        spec = z3.If(z3.And(fvars[other.order] == z3.BitVecVal(a_, other.len), fv == z3.BitVecVal(b_, f.len)), idx(nm), spec)
                have = idx(v.default)
                for kk, nm in v.mapping.items():
                    have = z3.If(truth(v.key == kk), idx(nm), have)
                st, mm = prove(have == spec, list(extra_assume), label=lab + "/value")
                if st == "sat":
                    ind_violation("indirect-lookup", mm, "value is not the database's %s entry for (%s bits, own bits)" % (f.d.get("LookupIndirectEnumeration"), other.id))
                elif st == "unknown":
                    rep.inconc("%s.%s indirect lookup undecided" % (p.id, f.id))
            continue
        if f.type not in SUPPORTED or not f.fixed:
            out("field type %s / no fixed position" % f.type)
            continue
        fv = fvars[f.order]
        x = SymInt(z3.ZeroExt(1, fv))
        nchk += 1
        lab = "%s/%d%s" % (f.type, f.len, "s" if f.signed else "u")

        def field_violation(kind, model, text):
            rp = {"kind": "field", "def": p.id, "field": f.id, "payload": model_payload(model) if model is not None else "0x0", "what": kind,
                  "off": f.off, "len": f.len, "index": p.fields.index(f)}
            bad({"kind": kind, "def": p.id, "field": f.id}, "%s.%s (%s): %s" % (p.id, f.id, f.type, text), rp)

        def need(claim, kind, text, assumptions=()):
            assumptions = list(assumptions) + list(extra_assume)
            st, mm = canon_prove(claim, list(assumptions), fv, lab + "/" + kind)
            if st == "sat":
                # re-derive a model over the real variable names for the replay
                st2, m2 = prove(claim, list(assumptions))
                field_violation(kind, m2, text)
            elif st == "unknown":
                rep.inconc("%s.%s %s: %s" % (p.id, f.id, kind, mm))
            return st

        if f.type in NUMERIC or f.type in ("TIME", "DATE"):
            sig = Sig(f)
            sigs.setdefault(sig.key(), (sig, (p.id, f.id)))
            ref_v, ref_rc, _ = numkernel.decode_number_ref(H.R.utils, sig, fv)
            if f.type in NUMERIC:
                got_v = got.value
                same_obj = got.value is got.raw_value
                if not same_obj:
                    need(eq_term(got.value, got.raw_value), "raw-vs-value", "raw_value and value differ")
                callinfo = raise_by_obj.get(id(got_v))
                need(eq_term(got_v, ref_v), "value-bits", "value is not decode_number(database arguments) of exactly the field's bits")
            else:
                # raw = decode_number(...), value = decode_time/decode_date(raw)
                callinfo = raise_by_obj.get(id(got.raw_value))
                need(eq_term(got.raw_value, ref_v), "raw-bits", "raw_value is not decode_number(database arguments) of exactly the field's bits")
                kfn = H.real["decode_time"] if f.type == "TIME" else H.real["decode_date"]
                xc0 = numkernel._REF[("num",) + sig.key()][0]
                ref_c = numkernel._REF[("num",) + sig.key()][1]
                xc_, rvc, _rc, _e = numkernel.kernel_ref((f.type,) + sig.key(), kfn, xc0, lambda xc: (ref_c,))
                rv_ = numkernel.subst(rvc, [(xc0, fv)]) if not (z3.is_const(fv) and fv.eq(xc0)) else rvc
                need(eq_term(got.value, rv_), "value-bits", "value is not decode_%s(raw)" % f.type.lower())
            if callinfo is not None:
                need(callinfo[2] == ref_rc, "raise-guard", "the range check differs from the database range")
            elif is_symbolic(got.raw_value) or is_symbolic(got.value):
                rep.error("%s.%s: kernel call not found" % (p.id, f.id))
        elif f.type == "LOOKUP":
            need(eq_term(got.raw_value, x), "raw-bits", "raw_value is not the field's bits")
            v = got.value
            table = D.lookups.get(f.lookup)
            if not isinstance(v, symcoll.SymMap):
                field_violation("lookup-shape", None, "value is %r" % type(v).__name__)
            else:
                if dict(v.mapping) != table or v.default is not None:
                    # find a differing key
                    ks = [k for k in set(v.mapping) | set(table) if v.mapping.get(k) != table.get(k)]
                    k0 = ks[0] if ks else 0
                    st, mm = prove(z3.BoolVal(False), [fv == z3.BitVecVal(k0 & ((1 << f.len) - 1), f.len)])
                    field_violation("lookup-table", mm, "table differs from database enumeration %s at key %s" % (f.lookup, k0))
                need(eq_term(v.key, x), "lookup-key", "lookup is not keyed by the field's bits")
        elif f.type == "BITLOOKUP":
            need(eq_term(got.raw_value, x), "raw-bits", "raw_value is not the field's bits")
            v = got.value
            if not isinstance(v, SymFlags) or dict(v.table) != D.bitlookups.get(f.bitlookup):
                field_violation("bitlookup-table", None, "value is not the bit enumeration %s" % f.bitlookup)
            else:
                need(eq_term(v.raw, x), "lookup-key", "bit lookup is not applied to the field's bits")
        elif f.type in ("RESERVED", "SPARE"):
            need(z3.And(eq_term(got.raw_value, x), eq_term(got.value, x)), "raw-bits", "value/raw_value are not the field's bits")
        elif f.type == "BINARY":
            v = got.value
            if not isinstance(v, SymBinary) or got.raw_value is not v:
                field_violation("binary-shape", None, "value is %r" % type(v).__name__)
            else:
                need(eq_term(v.value, x), "raw-bits", "binary value is not the field's bits")
        elif f.type == "STRING_FIX":
            v = got.value
            nb = (f.len + 7) // 8
            if not isinstance(v, SymText) or len(v.items) != nb:
                field_violation("string-shape", None, "value is %r" % type(v).__name__)
            else:
                cs = []
                padded = z3.ZeroExt(8 * nb - f.len, fv) if 8 * nb > f.len else fv
                for i, b in enumerate(v.items):
                    cs.append(eq_term(b, SymInt(z3.ZeroExt(1, z3.Extract(8 * i + 7, 8 * i, padded)))))
                need(z3.And(*cs), "raw-bits", "text is not decoded from exactly the field's bytes (little endian)")
        elif f.type == "FLOAT":
            callinfo = raise_by_obj.get(id(got.value))
            xcf = z3.BitVec("xref%d" % f.len, f.len)
            _x, rf, rfc, _e = numkernel.kernel_ref(("float", f.len, str(f.rmin), str(f.rmax)), H.real["decode_float"], xcf,
                                                  lambda xc: (SymInt(z3.ZeroExt(1, xc)), 0, f.len, f.flt("RangeMin"), f.flt("RangeMax")))
            rf, rfc = numkernel.subst(rf, [(xcf, fv)]), z3.substitute(rfc, (xcf, fv))
            need(eq_term(got.value, rf), "value-bits", "value is not decode_float of the field's bits")
            if callinfo is not None:
                need(callinfo[2] == rfc, "raise-guard", "float range check differs from the database range")
    # --- nothing else can make the definition fail: every deferred guard is either a logged kernel range check
    # (compared with the database above) or must be unsatisfiable on well-formed payloads
    varbin = [f for f in p.fields if f.type == "BINARY" and f.len is None and f.d.get("BitLengthField")]
    for d_ in pa.deferred:
        g, exc = d_
        if id(d_) in H.logged_deferred:
            continue
        allowed = z3.BoolVal(False)
        if varbin:
            lf = p.fields[varbin[0].d["BitLengthField"] - 1]
            if lf.order in fvars:
                allowed = fvars[lf.order] == z3.BitVecVal(Sig(lf).sentinel, lf.len)
        st, mm = prove(z3.Implies(g, allowed), label="extra-raise-guard")
        if st == "sat":
            bad({"kind": "decoder-raises", "def": p.id, "exc": type(exc).__name__},
                "%s raises %s for payload %s" % (p.id, type(exc).__name__, model_payload(mm)),
                {"kind": "decode", "def": p.id, "payload": model_payload(mm), "expect": "no-raise"})
        elif st == "unknown":
            rep.inconc("%s: extra raise guard undecided" % p.id)
        elif varbin:
            out("payloads whose BINARY length field is 'not available' (not well-formed)")
    return nchk, nbad


def string_kernel_checks(rep, H, tier):
    """decode_string_lz / decode_string_lau (variable-length strings): the real functions on a symbolic region of B bytes
    placed at a bit offset, every length byte value; oracle from the canboat field-type descriptions:
    STRING_LZ = length byte + that many bytes; STRING_LAU = length byte (counting the two header bytes), encoding byte
    (0 = UTF-16, 1 = ASCII/UTF-8), text; the next field starts 8*length bits further."""
    U = H.R.utils
    old = SymBytes.decode
    SymBytes.decode = lambda self_, enc="utf-8", **k: SymText(list(self_.items), encoding=enc)
    try:
        for kind in ("lz", "lau"):
            for B in ((2, 4) if tier == "quick" else (1, 2, 3, 4, 6)):
                for off in (0, 16):
                    region = [SymInt.var("s%d" % i, 8) for i in range(B)]
                    low = z3.BitVec("low", off) if off else None
                    bits = z3.Concat(*[z3.Extract(7, 0, r.t) for r in reversed(region)]) if B > 1 else z3.Extract(7, 0, region[0].t)
                    if low is not None:
                        bits = z3.Concat(bits, low)
                    data = SymInt(z3.ZeroExt(1, bits))
                    lenb = region[0]
                    # well-formed: the announced length fits in the region (LAU: at least its 2 header bytes)
                    assume = [truth(lenb <= (B - 1 if kind == "lz" else B))]
                    if kind == "lau":
                        assume.append(truth(lenb >= 2))
                    fn = U.decode_string_lz if kind == "lz" else U.decode_string_lau
                    try:
                        paths, ex = explore(lambda: fn(data, off), max_paths=512, assumptions=assume)
                    except Unsupported as e:
                        rep.inconc("string kernel %s B=%d off=%d: %s" % (kind, B, off, e))
                        continue
                    rep.count("string_kernel_paths", len(paths))
                    for pa in paths:
                        st0, m0 = satisfiable(z3.And(pa.cond(), *assume))
                        if st0 != "sat":
                            continue

                        def wit(m):
                            return {"kind": "string", "fn": kind, "off": off, "region": bytes(m.eval(r.t, True).as_long() & 0xFF for r in region).hex(),
                                    "low": (m.eval(low, True).as_long() if low is not None else 0)}
                        if pa.kind != "return":
                            rep.violation({"kind": "string-kernel-raises", "fn": kind, "exc": type(pa.value).__name__},
                                          "decode_string_%s raises %r on a well-formed field (length byte fits the data)" % (kind, pa.value), wit(m0))
                            continue
                        res = pa.value
                        text, skip = (res, None) if kind == "lz" else res
                        hdr = 1 if kind == "lz" else 2
                        if not isinstance(text, SymText):
                            if text is None and kind == "lau":
                                rep.violation({"kind": "string-kernel-none", "fn": kind}, "decode_string_lau returns no text for a well-formed field", wit(m0))
                            elif text == "":
                                text = SymText([], encoding=None)       # an empty result: zero characters returned
                            elif isinstance(text, str):
                                rep.violation({"kind": "string-kernel-content", "fn": kind}, "decode_string_%s returns the constant %r" % (kind, text), wit(m0))
                                continue
                            if not isinstance(text, SymText):
                                continue
                        k = len(text.items)
                        cl = []
                        for j in range(k):
                            if hdr + j < B:
                                cl.append(truth(SymInt.lift(text.items[j]) == region[hdr + j]))
                            else:
                                cl.append(z3.BoolVal(False))
                        # bytes of the announced text that were not returned can only be trailing zero bytes (minimal-length to_bytes)
                        nchars = (lenb - hdr) if kind == "lau" else lenb
                        for j in range(k, B - hdr):
                            cl.append(z3.Implies(truth(nchars > j), truth(region[hdr + j] == 0)))
                        cl.append(truth(nchars >= k))
                        if kind == "lau":
                            cl.append(truth(SymInt.lift(skip) == lenb * 8))
                            if text.encoding is not None:
                                cl.append(z3.If(truth(region[1] == 0), z3.BoolVal(text.encoding == "utf-16"), z3.BoolVal(text.encoding == "utf-8")))
                        st, m = prove(z3.And(*cl), assume + pa.pc, label="string-%s/B=%d" % (kind, B))
                        if st == "sat":
                            rep.violation({"kind": "string-kernel-content", "fn": kind},
                                          "decode_string_%s: text / skip / encoding is not what the field's bytes say" % kind, wit(m))
                        elif st == "unknown":
                            rep.inconc("string kernel %s undecided" % kind)
    finally:
        SymBytes.decode = old


def kernel_checks(rep, H, tier):
    """kernels that the per-definition run replaces by opaque results"""
    string_kernel_checks(rep, H, tier)
    real = H.real
    # decode_bit_lookup: names of the set bits, ascending, joined by ', ' - for every table, arguments <= 8 bits (all values by path)
    D = db()
    nb = 8
    tables = sorted(D.bitlookups.items())
    sparse = [(n, t) for n, t in tables if t and max(t) >= len(t)]
    chosen = sparse + [x for x in tables if x not in sparse][:2]
    chosen.append(("(synthetic: bits 0,2,5,7)", {0: "a", 2: "c", 5: "f", 7: "h"}))
    rep.count("bitlookup_tables_checked_at_kernel_level", len(chosen))
    for name, table in chosen:
        xv = z3.BitVec("b", nb)
        tbl = symcoll.SymDict(table)
        paths, ex = explore(lambda: real["decode_bit_lookup"](SymInt(z3.ZeroExt(1, xv)), tbl), max_paths=1 << (nb + 1))
        for pa in paths:
            st, m = satisfiable(pa.cond())
            if st != "sat":
                continue
            raw = m.eval(xv, True).as_long()
            bad = None
            if pa.kind != "return" or not isinstance(pa.value, str):
                bad = raw
            else:
                S, rest = set(), pa.value
                for b_ in sorted(table):          # names may themselves contain ", ": parse greedily in bit order
                    nm = table[b_]
                    if rest == nm or rest.startswith(nm + ", "):
                        S.add(b_)
                        rest = rest[len(nm) + 2:]
                if ", ".join(table[b_] for b_ in sorted(S)) != pa.value:
                    bad = raw
                else:
                    # for EVERY raw value on this path the returned names are exactly the set bits that have a name
                    claim = z3.And(*[(z3.Extract(b_, b_, xv) == 1) == (b_ in S) for b_ in table if b_ < nb])
                    st2, m2 = prove(claim, pa.pc, label="bit-lookup/%s" % name)
                    if st2 == "sat":
                        bad = m2.eval(xv, True).as_long()
                    elif st2 == "unknown":
                        rep.inconc("bit lookup kernel %s" % name)
            if bad is not None:
                exp = ", ".join(table[b_] for b_ in sorted(table) if bad >> b_ & 1)
                rep.violation({"kind": "bit-lookup-kernel", "table": name}, "decode_bit_lookup(%#x, %s) is not %r" % (bad, name, exp),
                              {"kind": "bitlookup", "table": name, "raw": bad, "content": {str(k): v for k, v in table.items()}})
        rep.count("bitlookup_kernel_paths", len(paths))
    # int_to_bytes: big-endian bytes of the value, minimal length (the library's own convention: one spare zero byte
    # when the top bit of the top byte would be set is accepted) - value is recovered exactly
    for w in (8, 16, 19, 32):
        xv = z3.BitVec("v", w)
        paths, ex = explore(lambda: real["int_to_bytes"](SymInt(z3.ZeroExt(1, xv))), max_paths=64)
        for pa in paths:
            if pa.kind != "return":
                st, m = satisfiable(pa.cond())
                rep.violation({"kind": "int-to-bytes-kernel"}, "int_to_bytes raises %r" % (pa.value,), {"kind": "itb", "value": m.eval(xv, True).as_long() if m else 0})
                continue
            back = P.int_from_bytes(pa.value, "big")
            st, m = prove(truth(SymInt.lift(back) == SymInt(z3.ZeroExt(1, xv))), pa.pc, label="int_to_bytes/%d" % w)
            if st == "sat":
                rep.violation({"kind": "int-to-bytes-kernel"}, "int_to_bytes does not preserve the value", {"kind": "itb", "value": m.eval(xv, True).as_long()})


    datetime_kernel_checks(rep, H, tier)
    time_truncation_lemma(rep)


def glue_check(rep, H, tier):
    """decoder._call_decode_function: the payload bytes of a frame / reassembled message (received last-byte-first) reach
    the per-PGN function as the little-endian integer of the payload, every byte at 8 * its index, for every payload
    length; the function's message is returned with the caller's addressing.  The per-PGN function is replaced by a
    recorder here (the functions themselves are the subject of the definition-level runs above)."""
    from datetime import datetime
    R = H.R
    lengths = [1, 2, 3, 5, 8] + ([9, 32, 223] if tier == "quick" else list(range(9, 224, 7)) + [223])
    g = R.decoder.__dict__
    name = "decode_pgn_127250"
    saved = g.get(name)
    try:
        for L in lengths:
            bs = [z3.BitVec("gb%d_%d" % (L, i), 8) for i in range(L)]            # payload bytes in wire order
            src, dst, prio = z3.BitVec("gsrc", 8), z3.BitVec("gdst", 8), z3.BitVec("gprio", 3)
            seen = []

            def recorder(data_int):
                seen.append(data_int)
                return R.message.NMEA2000Message(PGN=127250, id="vesselHeading", description="x")
            g[name] = recorder
            ts = datetime(2021, 2, 3)

            def h():
                del seen[:]
                dec = R.decoder.NMEA2000Decoder()
                data = SymBytes([SymInt(z3.ZeroExt(1, b), 8) for b in reversed(bs)])       # as the front-ends hand it over: reversed
                m = dec._call_decode_function(127250, SymInt(z3.ZeroExt(1, prio), 3), SymInt(z3.ZeroExt(1, src), 8), SymInt(z3.ZeroExt(1, dst), 8), ts, data, None, b"")
                return m, list(seen)
            try:
                paths, ex = explore(h, max_paths=16)
            except Unsupported as e:
                rep.inconc("payload glue, %d bytes: %s" % (L, e))
                continue
            for pa in paths:
                def wit(mm):
                    pay = bytes(mm.eval(b, True).as_long() for b in bs) if mm is not None else bytes(L)
                    return {"kind": "glue", "payload": pay.hex(), "src": mm.eval(src, True).as_long() if mm is not None else 1,
                            "dst": mm.eval(dst, True).as_long() if mm is not None else 255, "prio": mm.eval(prio, True).as_long() if mm is not None else 2}
                if pa.kind != "return" or pa.value[0] is None or len(pa.value[1]) != 1:
                    st0, m0 = satisfiable(pa.cond())
                    if st0 == "sat":
                        rep.violation({"kind": "payload-glue", "n": L}, "%d-byte payload: _call_decode_function %s" % (L, "raised %r" % (pa.value,) if pa.kind != "return" else "returned nothing / called the per-PGN function %d times" % len(pa.value[1])), wit(m0))
                    continue
                m, (di,) = pa.value
                want = z3.Concat(*reversed(bs)) if L > 1 else bs[0]
                got = SymInt.lift(di)
                w = max(got.w, 8 * L + 1)
                claim = z3.And(got.ext(w) == z3.ZeroExt(w - 8 * L, want), eq_term(m.source, SymInt(z3.ZeroExt(1, src), 8)), eq_term(m.destination, SymInt(z3.ZeroExt(1, dst), 8)),
                               eq_term(m.priority, SymInt(z3.ZeroExt(1, prio), 3)), z3.BoolVal(m.timestamp == ts and m.PGN == 127250))
                st, mm = prove(claim, pa.pc, label="payload-glue/%d" % (1 if L <= 8 else 2))
                if st == "sat":
                    rep.violation({"kind": "payload-glue", "n": L}, "%d-byte payload: the per-PGN function does not receive the little-endian integer of the payload, or the addressing of the returned message differs" % L, wit(mm))
                elif st == "unknown":
                    rep.inconc("payload glue %d bytes undecided" % L)
            rep.count("payload_glue_lengths", 1)
    finally:
        if saved is not None:
            g[name] = saved
    # an ISO address claim goes through more code after its per-PGN function (the source identity is built from the
    # decoded fields): every claim whose fields lie inside their database ranges must come back as a message
    nm = z3.BitVec("claim_name", 64)
    inr = [z3.ULE(z3.Extract(20, 0, nm), 2097148), z3.ULE(z3.Extract(34, 32, nm), 6), z3.ULE(z3.Extract(39, 35, nm), 29), z3.ULE(z3.Extract(59, 56, nm), 13)]
    csrc = z3.BitVec("claim_src", 8)

    def hclaim():
        dec = R.decoder.NMEA2000Decoder()
        data = SymBytes([SymInt(z3.ZeroExt(1, z3.Extract(8 * i + 7, 8 * i, nm)), 8) for i in reversed(range(8))])
        m = dec._call_decode_function(60928, 6, SymInt(z3.ZeroExt(1, csrc), 8), 255, datetime(2021, 2, 3), data, None, b"")
        return m is not None and m.source_iso_name is not None
    try:
        paths, ex = explore(hclaim, max_paths=4096, assumptions=inr)
        for pa in paths:
            if pa.kind == "return" and pa.value:
                continue
            st0, m0 = satisfiable(z3.And(pa.cond(), *inr))
            if st0 == "sat":
                rep.violation({"kind": "claim-glue"}, "an ISO address claim whose fields are all inside their database ranges %s" % (
                    "makes the decoder raise %r" % (pa.value,) if pa.kind != "return" else "is not returned with its identity"),
                    {"kind": "claimglue", "name": m0.eval(nm, True).as_long(), "src": m0.eval(csrc, True).as_long()})
        rep.count("address_claim_glue_paths", len(paths))
    except Unsupported as e:
        rep.inconc("address claim glue: %s" % (e,))


def time_truncation_lemma(rep):
    """int(raw * 0.0001) == raw // 10000 for every 32-bit TIME raw value inside the database range: the binary64 product
    never lands on the wrong side of a whole second.  z3 and cvc5 do not decide the bit-precise statement (nor the
    one-query rounding-model statement) within 280 s, so it is discharged as a chain of three small obligations over
    the two facts the rounding-error model rests on, for r = fl(x*c), c = binary64(0.0001), x < 2^53 (exactly representable):
      (M1) |r - e| <= 2^-53 |e|  with e = x*c        (M2) floor(e) <= r <= floor(e) + 1   (round-to-nearest never crosses an integer)
      O1  for all real k in [0, 86401], j in [0, 9999], e = (10000k + j) c:   k <= e  and  e (1 + 2^-53) < k + 1
      O2  integers f, k, real e:   f <= e < f+1  and  k <= e < k+1   =>  f = k                      (so floor(e) = x div 10000)
      O3  integers t, k, reals r, e:  k <= r <= k+1,  r <= e (1 + 2^-53) < k+1,  t <= r < t+1  =>  t = k   (so trunc(r) = x div 10000)
    The composition (instantiating e, f = floor(e), k = x div 10000, j = x mod 10000) is by hand; the statement is additionally
    run on the plain interpreter for every whole-second boundary +-1 tick and a stride through the range."""
    from fractions import Fraction
    from .realmodel import rv
    cq, u = Fraction(0.0001), Fraction(1, 2 ** 53)
    kr, jr, e, r = z3.Reals("kr jr e r")
    f, k, t = z3.Ints("f k t")
    er = (10000 * kr + jr) * rv(cq)
    obs = [("O1", z3.And(er >= kr, er * rv(1 + u) < kr + 1), [kr >= 0, kr <= 86401, jr >= 0, jr <= 9999]),
           ("O2", f == k, [z3.ToReal(f) <= e, e < z3.ToReal(f) + 1, z3.ToReal(k) <= e, e < z3.ToReal(k) + 1]),
           ("O3", t == k, [z3.ToReal(k) <= r, r <= z3.ToReal(k) + 1, r <= e * rv(1 + u), e * rv(1 + u) < z3.ToReal(k) + 1, z3.ToReal(t) <= r, r < z3.ToReal(t) + 1])]
    for name, claim, asm in obs:
        st, m = prove(claim, asm, label="time-truncation-lemma/" + name)
        if st == "sat":
            rep.violation({"kind": "time-truncation"}, "truncation lemma step %s fails: %s" % (name, m), {"kind": "trunc", "x": 0})
            return
        if st == "unknown":
            rep.inconc("time truncation lemma %s undecided" % name)
    n = 0
    for kk in range(0, 86402):
        for x in (10000 * kk - 1, 10000 * kk, 10000 * kk + 1):
            if 0 <= x <= 864010000:
                n += 1
                if int(x * 0.0001) != x // 10000:
                    rep.violation({"kind": "time-truncation"}, "int(%d * 0.0001) = %d, not %d" % (x, int(x * 0.0001), x // 10000), {"kind": "trunc", "x": x})
                    return
    for x in range(0, 864010001, 7919):
        n += 1
        if int(x * 0.0001) != x // 10000:
            rep.violation({"kind": "time-truncation"}, "int(%d * 0.0001) = %d, not %d" % (x, int(x * 0.0001), x // 10000), {"kind": "trunc", "x": x})
            return
    rep.count("time_truncation_concrete_values", n)


def datetime_kernel_checks(rep, H, tier):
    """decode_time / decode_date on every integer and every binary64 argument: the definition level only ties a TIME /
    DATE value to `kernel(decode_number(...))`; here the kernel itself is compared with its specification
    (hour:minute:second of floor(seconds) inside a day; 1970-01-01 + floor(days))."""
    from .envmodels import SymDate, SymTime, EPOCH_ORD
    import datetime as _dtm
    real = H.real
    for fname in ("decode_time", "decode_date"):
        for kind in ("int", "float"):
            if kind == "int":
                xv = z3.BitVec("n_" + fname, 34)
                arg = SymInt(xv)
                n_term = xv
                base = []
            else:
                # the float arguments that occur: raw * resolution for the database's fractional resolutions of this field type
                sigs_ = sorted({(f.len, float(f.res)) for p_ in db().pgns for f in p_.fields
                                if f.type == ("TIME" if fname == "decode_time" else "DATE") and f.fixed and f.res is not None and f.res != 1})
                if not sigs_:
                    continue
                ln, res_ = sigs_[0]
                xv = z3.BitVec("x_" + fname, ln)
                arg = SymInt(z3.ZeroExt(1, xv), ln) * res_
                n_term = z3.fpToSBV(z3.RTZ(), arg.t, z3.BitVecSort(34))
                base = []
            lo, hi = (0, 86399) if fname == "decode_time" else (0, 65532)
            hi_range = 86401 if fname == "decode_time" else 65532        # database RangeMax of every TIME / DATE field
            inside = [z3.BitVecVal(lo, 34) <= n_term, n_term <= z3.BitVecVal(hi, 34)]
            try:
                paths, ex = explore(lambda: real[fname](arg), max_paths=64, assumptions=base)
            except Unsupported as e:
                rep.inconc("%s(%s): %s" % (fname, kind, e))
                continue
            rep.count("datetime_kernel_paths", len(paths))
            for pa in paths:
                def wit(m):
                    if m is None:
                        return {"kind": "dtkernel", "fn": fname, "arg": 0}
                    if kind == "int":
                        v = m.eval(xv, True).as_signed_long()
                    else:
                        v = m.eval(xv, True).as_long() * res_
                    return {"kind": "dtkernel", "fn": fname, "arg": v, "argkind": kind}
                pc = [c for c in pa.pc] + base + inside
                if pa.kind != "return":
                    # must not fail anywhere inside the database range of the field type (TIME: 0..86401 s, which includes the
                    # leap-second values whose time of day is outside the value claim below)
                    st, m = satisfiable(z3.And(*([c for c in pa.pc] + base + [z3.BitVecVal(lo, 34) <= n_term, n_term <= z3.BitVecVal(hi_range, 34)])))
                    if st == "sat":
                        rep.violation({"kind": "datetime-kernel", "fn": fname}, "%s raises %r on an argument inside the field's domain" % (fname, pa.value), wit(m))
                    elif st == "unknown":
                        rep.inconc("%s(%s) raise path undecided" % (fname, kind))
                    continue
                v = pa.value
                if fname == "decode_time":
                    if isinstance(v, _dtm.time):
                        h_, mi_, s_ = v.hour, v.minute, v.second
                    elif isinstance(v, SymTime):
                        h_, mi_, s_ = v.hour, v.minute, v.second
                    else:
                        st, m = satisfiable(z3.And(*pc))
                        if st == "sat":
                            rep.violation({"kind": "datetime-kernel", "fn": fname}, "%s returns %r" % (fname, type(v).__name__), wit(m))
                        continue
                    tot = SymInt.lift(h_) * 3600 + SymInt.lift(mi_) * 60 + SymInt.lift(s_)
                    claim = z3.And(truth(tot == SymInt(n_term)), truth(SymInt.lift(s_) < 60), truth(SymInt.lift(mi_) < 60), truth(SymInt.lift(h_) < 24),
                                   truth(SymInt.lift(s_) >= 0), truth(SymInt.lift(mi_) >= 0), truth(SymInt.lift(h_) >= 0))
                else:
                    if isinstance(v, _dtm.date):
                        o_ = v.toordinal()
                    elif isinstance(v, SymDate):
                        o_ = v.ordinal
                    else:
                        st, m = satisfiable(z3.And(*pc))
                        if st == "sat":
                            rep.violation({"kind": "datetime-kernel", "fn": fname}, "%s returns %r" % (fname, type(v).__name__), wit(m))
                        continue
                    claim = truth(SymInt.lift(o_) == SymInt(n_term) + EPOCH_ORD)
                st, m = prove(claim, pc, label="%s-kernel/%s" % (fname, kind), timeout_ms=120000)
                if st == "sat":
                    rep.violation({"kind": "datetime-kernel", "fn": fname}, "%s does not return the %s of its argument" % (fname, "time of day" if fname == "decode_time" else "date"), wit(m))
                elif st == "unknown":
                    rep.inconc("%s(%s) kernel undecided: %s" % (fname, kind, m))


# ------------------------------------------------------------------ replay (plain code, exact arithmetic oracle)
def replay(r):
    from fractions import Fraction
    from .plain import plain
    N = plain()
    D = db()
    k = r["kind"]
    if k == "missing":
        return r["name"] not in N.pgns.__dict__, "missing"
    if k == "bitlookup":
        table = {int(k): v for k, v in r["content"].items()}
        raw = r["raw"]
        exp = ", ".join(table[b] for b in sorted(table) if raw >> b & 1)
        got = N.utils.decode_bit_lookup(raw, table)
        return got != exp, "got %r expected %r" % (got, exp)
    if k == "string":
        region = bytes.fromhex(r["region"])
        data = (int.from_bytes(region, "little") << r["off"]) | r["low"]
        fn = N.utils.decode_string_lz if r["fn"] == "lz" else N.utils.decode_string_lau
        hdr = 1 if r["fn"] == "lz" else 2
        try:
            res = fn(data, r["off"])
        except Exception as e:
            return True, "decode_string_%s(%#x, %d) raised %r" % (r["fn"], data, r["off"], e)
        text, skip = (res, None) if r["fn"] == "lz" else res
        n = region[0] - 2 if r["fn"] == "lau" else region[0]
        raw = region[hdr:hdr + max(n, 0)]
        enc = "utf-16" if (r["fn"] == "lau" and region[1] == 0) else "utf-8"
        exp = raw.rstrip(b"\x00").decode(enc, errors="ignore") if enc == "utf-8" else raw.decode(enc, errors="ignore")
        bad = text is None or (text.rstrip("\x00") != exp.rstrip("\x00")) or (skip is not None and skip != 8 * region[0])
        return bad, "decode_string_%s region %s -> %r skip %r, expected %r skip %r" % (r["fn"], region.hex(), text, skip, exp, 8 * region[0])
    if k == "glue":
        from datetime import datetime
        pay = bytes.fromhex(r["payload"])
        seen = []
        g = N.decoder.__dict__
        saved = g["decode_pgn_127250"]
        g["decode_pgn_127250"] = lambda di: seen.append(di) or N.message.NMEA2000Message(PGN=127250, id="vesselHeading", description="x")
        try:
            try:
                m = N.decoder.NMEA2000Decoder()._call_decode_function(127250, r["prio"], r["src"], r["dst"], datetime(2021, 2, 3), pay[::-1], None, b"")
            except Exception as e:
                return True, "_call_decode_function raised %r" % (e,)
        finally:
            g["decode_pgn_127250"] = saved
        ok = m is not None and seen == [int.from_bytes(pay, "little")] and (m.source, m.destination, m.priority) == (r["src"], r["dst"], r["prio"])
        return not ok, "payload %s: per-PGN function received %r, message addressing %r" % (pay.hex(), [hex(x) for x in seen], None if m is None else (m.source, m.destination, m.priority))
    if k == "trunc":
        x = r["x"]
        return int(x * 0.0001) != x // 10000, "int(%d * 0.0001) = %d, %d // 10000 = %d" % (x, int(x * 0.0001), x, x // 10000)
    if k == "claimglue":
        from datetime import datetime
        try:
            m = N.decoder.NMEA2000Decoder()._call_decode_function(60928, 6, r["src"], 255, datetime(2021, 2, 3), r["name"].to_bytes(8, "little")[::-1], None, b"")
        except Exception as e:
            return True, "address claim NAME %#x: decoder raised %r" % (r["name"], e)
        return m is None or m.source_iso_name is None, "address claim NAME %#x -> %r" % (r["name"], m)
    if k == "dtkernel":
        import datetime as _dtm
        import math
        a = r["arg"]
        n = math.floor(a) if a >= 0 else -math.floor(-a)
        try:
            got = getattr(N.utils, r["fn"])(a)
        except Exception as e:
            return True, "%s(%r) raised %r" % (r["fn"], a, e)
        exp = (_dtm.datetime(2000, 1, 1) + _dtm.timedelta(seconds=n)).time() if r["fn"] == "decode_time" else _dtm.date(1970, 1, 1) + _dtm.timedelta(days=n)
        return got != exp, "%s(%r) = %r, expected %r" % (r["fn"], a, got, exp)
    if k == "itb":
        b = N.message.int_to_bytes(r["value"])
        return int.from_bytes(b, "big") != r["value"], "bytes %r" % (b,)
    pdef = [p for p in D.pgns if p.id == r["def"]]
    if not pdef:
        return None, "definition not found"
    p = pdef[0]
    fn = N.pgns.__dict__.get("decode_pgn_%s" % D.func_suffix(p))
    if k == "number":
        # rebuild a payload with the witness raw value in the named field, everything else zero / not raising
        f = [f for f in p.fields if f.id == r["field"]][0]
        sig = Sig(f)
        raw = r["raw"] or 0
        try:
            val = N.utils.decode_number(raw, 0, sig.L, sig.signed, sig.res_py, sig.min_py, sig.max_py)
            err = None
        except Exception as e:
            val, err = None, e
        sraw = raw - (1 << sig.L) if sig.signed and raw >> (sig.L - 1) else raw
        exact = Fraction(sraw) * sig.res + sig.offset
        lo, hi = sig.raw_range()
        inr = (lo is None or sraw >= lo) and (hi is None or sraw <= hi)
        what = r["what"]
        if what == "in-range-rejected":
            return (err is not None and inr), "raw %d (exact value %s, database range [%s, %s]) -> %r" % (raw, exact, sig.rmin, sig.rmax, err)
        if what == "value":
            if val is None:
                return False, "no value"
            diff = abs(Fraction(val) - exact)
            return diff > Fraction(1, 2 ** 50) * (abs(exact) + abs(sig.offset)), "raw %d decodes to %r, database says %s" % (raw, val, exact)
        if what == "none-rule":
            isnone = val is None and err is None
            return isnone != (raw == sig.sentinel and sig.L >= 2), "raw %d -> %r (err %r)" % (raw, val, err)
        return None, "unknown"
    payload = int(r.get("payload", "0x0"), 16)
    try:
        m = fn(payload)
        err = None
    except Exception as e:
        m, err = None, e
    if k == "decode":
        return err is not None, "raised %r" % (err,)
    if k == "meta":
        if err is not None:
            return True, "raised %r" % (err,)
        from datetime import timedelta
        ok = (m.PGN, m.id, m.description) == (p.pgn, p.id, p.description) and \
            m.ttl == (timedelta(milliseconds=p.interval) if p.interval is not None else None)
        nf = len(m.fields) == len(p.fields)
        for f, g in zip(p.fields, m.fields):
            pq = g.physical_quantities.name if g.physical_quantities is not None else None
            if (f.id, f.name, f.description, f.unit, f.pq, f.type, bool(f.key)) != \
                    (g.id, g.name, g.description, g.unit_of_measurement, pq, g.type.name, bool(g.part_of_primary_key)):
                ok = False
        return not (ok and nf), "metadata comparison"
    if k == "field":
        idx = r.get("index")
        f = p.fields[idx] if idx is not None else [f for f in p.fields if f.id == r["field"]][0]
        idx = p.fields.index(f)
        off, ln = r.get("off", f.off), r.get("len", f.len)
        raw = (payload >> off) & ((1 << ln) - 1)
        if err is not None:
            return True, "raised %r" % (err,)
        g = m.fields[idx]
        if f.type == "INDIRECT_LOOKUP":
            other = p.fields[f.d["LookupIndirectEnumerationFieldOrder"] - 1]
            a_ = (payload >> other.off) & ((1 << other.len) - 1)
            want = D.indirect.get(f.d.get("LookupIndirectEnumeration"), {}).get("%d_%d" % (a_, raw))
            return g.value != want or g.raw_value != raw, "field %s: (%s=%d, own=%d) -> %r raw %r, database says %r" % (f.id, other.id, a_, raw, g.value, g.raw_value, want)
        if f.type in ("STRING_LAU", "STRING_LZ"):
            want = oracle_string(f, raw, ln)
            return (g.value or "").rstrip("\x00") != want.rstrip("\x00"), "field %s bytes %#x -> %r, expected %r" % (f.id, raw, g.value, want)
        exp = oracle_field(D, f, raw)
        got = (g.value, g.raw_value)
        return not exp(got), "field %s raw %#x -> value %r raw_value %r" % (f.id, raw, g.value, g.raw_value)
    return None, "unknown replay kind"


def oracle_field(D, f, raw):
    """independent oracle for one field value given its raw bits (exact arithmetic)"""
    from fractions import Fraction
    import datetime
    sig = Sig(f) if f.res is not None and f.len else None

    def close(v, exact):
        return v is not None and abs(Fraction(v) - exact) <= Fraction(1, 2 ** 50) * (abs(exact) + abs(f.offset))

    def chk(got):
        value, rawv = got
        if f.type in NUMERIC:
            sraw = raw - (1 << f.len) if f.signed and raw >> (f.len - 1) else raw
            if raw == sig.sentinel and f.len >= 2 and not sig.sentinel_in_range():
                return value is None
            return close(value, Fraction(sraw) * f.res + f.offset)
        if f.type == "LOOKUP":
            return rawv == raw and value == D.lookups[f.lookup].get(raw)
        if f.type == "BITLOOKUP":
            t = D.bitlookups[f.bitlookup]
            return rawv == raw and value == ", ".join(t[b] for b in sorted(t) if raw >> b & 1)
        if f.type in ("RESERVED", "SPARE"):
            return value == raw and rawv == raw
        if f.type == "BINARY":
            return isinstance(value, bytes) and int.from_bytes(value, "big") == raw
        if f.type == "DATE":
            if raw == sig.sentinel:
                return value is None
            return value == datetime.date(1970, 1, 1) + datetime.timedelta(days=raw)
        if f.type == "TIME":
            if raw == sig.sentinel:
                return value is None
            secs = int(Fraction(raw) * f.res)
            if secs >= 86400:
                return True
            return value == datetime.time(secs // 3600, secs % 3600 // 60, secs % 60)
        if f.type == "FLOAT":
            import struct
            return value == struct.unpack("<f", struct.pack("<I", raw))[0] or value != value
        if f.type == "STRING_FIX":
            return isinstance(value, str)
        return True
    return chk


def oracle_string(f, raw, ln):
    hdr = 2 if f.type == "STRING_LAU" else 1
    b = raw.to_bytes(ln // 8, "little")
    enc = "utf-16" if (f.type == "STRING_LAU" and b[1] == 0) else "utf-8"
    return b[hdr:].decode(enc, errors="ignore")
