import argparse
import importlib
import os
import sys
import traceback


def main():
    ap = argparse.ArgumentParser()
    ap.add_argument("pid")
    ap.add_argument("--tier", default=os.environ.get("VERIF_TIER", "quick"), choices=["quick", "thorough"])
    ap.add_argument("--replay")
    a = ap.parse_args()
    seed = int(os.environ.get("VERIF_SEED", "0") or 0)
    mod = importlib.import_module("vf.%s" % a.pid.lower())
    if a.replay:
        import json
        doc = json.load(open(a.replay))
        ok, detail = mod.replay(doc["replay"])
        print("replay %s: %s -- %s" % (a.replay, "REPRODUCED" if ok else "not reproduced", detail))
        sys.exit(1 if ok else 0)
    import time
    from vf import explorer
    budget = float(os.environ.get("VF_BUDGET_S", "900" if a.tier == "quick" else "5400"))
    explorer.DEADLINE[0] = time.time() + budget
    explorer.CROSS[0] = (a.tier == "thorough") or os.environ.get("VF_CROSS") == "1"
    try:
        code = mod.run(a.tier, seed)
    except SystemExit:
        raise
    except BaseException:
        traceback.print_exc()
        print("HARNESS-ERROR: %s crashed" % a.pid)
        code = 3
    sys.exit(code)


if __name__ == "__main__":
    main()
