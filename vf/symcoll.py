"""Containers that stay sound under symbolic keys.

SymDict / SymSet replace every dict/set literal, comprehension and dict()/set() call of the instrumented
source.  With concrete keys they are plain dict/set.  A symbolic int key is first compared (==, forking on
equality) with every concrete key, then handed to the base class under the constant weak hash, where Python's
own probing compares it with the other symbolic keys.  Large constant tables looked up with a symbolic key
return a SymMap (finite map applied to a symbolic key) instead of forking per entry."""
import z3
from .explorer import EX, Unsupported
from .proxies import SymInt, SymBool, SymOpt, truth, sym_not, register_symbolic
from . import proxies as P

_MISSING = object()


def _is_sym_key(k):
    if isinstance(k, SymInt):
        return not z3.is_bv_value(z3.simplify(k.t))
    if isinstance(k, tuple):
        return any(_is_sym_key(x) for x in k)
    return hasattr(k, "__sx_symkey__")


def _concrete_of(k):
    if isinstance(k, SymInt):
        return z3.simplify(k.t).as_signed_long()
    return k


class SymMap:
    """mapping[key] for a symbolic integer key over a finite concrete mapping; `default` when absent"""

    def __init__(self, key, mapping, default=None, name=None):
        self.key = key
        self.mapping = mapping
        self.default = default
        self.name = name

    def _member(self):
        cs = [truth(self.key == k) for k in self.mapping]
        return z3.Or(*cs) if cs else z3.BoolVal(False)

    def cond_where(self, pred):
        """Bool term: the looked-up value satisfies pred (evaluated point-wise by CPython)"""
        cs = [truth(self.key == k) for k, v in self.mapping.items() if pred(v)]
        c = z3.Or(*cs) if cs else z3.BoolVal(False)
        if pred(self.default):
            c = z3.Or(c, z3.Not(self._member()))
        return c

    def map(self, fn):
        return SymMap(self.key, {k: fn(v) for k, v in self.mapping.items()},
                      fn(self.default) if self.default is not None else None, self.name)

    def is_none(self):
        return SymBool(self.cond_where(lambda v: v is None))

    def lower(self):
        return self.map(lambda v: v.lower() if isinstance(v, str) else v)

    def upper(self):
        return self.map(lambda v: v.upper() if isinstance(v, str) else v)

    def __eq__(self, o):
        if isinstance(o, SymMap):
            if o.mapping is self.mapping or o.mapping == self.mapping:
                # equal values iff (same key) or both map to equal values; decide point-wise on this side
                cs = []
                for k, v in self.mapping.items():
                    cs.append(z3.And(truth(self.key == k), o.cond_where(lambda w, v=v: w == v)))
                cs.append(z3.And(z3.Not(self._member()), o.cond_where(lambda w: w == self.default)))
                return SymBool(z3.Or(*cs))
            raise Unsupported("SymMap == SymMap over different tables")
        return SymBool(self.cond_where(lambda v: v == o))

    def __ne__(self, o):
        return sym_not(self.__eq__(o))

    def pin(self):
        """fork over the distinct values this lookup can yield and return the concrete one of this path"""
        seen = []
        for v in list(self.mapping.values()) + [self.default]:
            if any(v is w or (type(v) is type(w) and v == w) for w in seen):
                continue
            seen.append(v)
            if EX().branch(z3.simplify(self.cond_where(lambda x, v=v: type(x) is type(v) and x == v))):
                return v
        raise Unsupported("SymMap.pin: no feasible value")

    def __hash__(self):
        return hash(self.pin())

    def as_int(self):
        """the looked-up value as one symbolic integer (all values must be integers on this path: a None / text value
        still possible under the path condition makes this fork first)"""
        vals = list(self.mapping.values()) + [self.default]
        if not all(isinstance(v, int) and not isinstance(v, bool) for v in vals):
            ok = z3.simplify(self.cond_where(lambda v: isinstance(v, int) and not isinstance(v, bool)))
            if not EX().branch(ok):
                raise TypeError("unsupported operand: the looked-up value is not an integer")
        t = None
        for k, v in self.mapping.items():
            if isinstance(v, int) and not isinstance(v, bool):
                t = SymInt.lift(v) if t is None else P.ite(truth(self.key == k), SymInt.lift(v), t)
        if isinstance(self.default, int) and not isinstance(self.default, bool):
            # default applies when no key matches
            d = SymInt.lift(self.default)
            t = d if t is None else P.ite(z3.Not(self._member()), d, t)
        if t is None:
            raise TypeError("no integer value")
        return SymInt.lift(t)

    def __and__(self, o):
        return self.as_int() & o

    def __rand__(self, o):
        return o & self.as_int()

    def __or__(self, o):
        return self.as_int() | o

    def __ror__(self, o):
        return o | self.as_int()

    def __lshift__(self, o):
        return self.as_int() << o

    def __rshift__(self, o):
        return self.as_int() >> o

    def __lt__(self, o):
        return self.as_int() < o

    def __le__(self, o):
        return self.as_int() <= o

    def __gt__(self, o):
        return self.as_int() > o

    def __ge__(self, o):
        return self.as_int() >= o

    def __add__(self, o):
        if isinstance(o, SymMap):
            raise Unsupported("SymMap + SymMap")
        return self.map(lambda v: v + o)

    def __radd__(self, o):
        return self.map(lambda v: o + v)

    def __sx_format__(self, conv, spec):
        v = self.pin()
        return format(v, spec) if spec else (repr(v) if conv == ord("r") else str(v))

    def __sx_in__(self, container):
        if isinstance(container, (set, frozenset, list, tuple, dict)):
            try:
                return SymBool(self.cond_where(lambda v: v in container))
            except TypeError:
                pass
        raise Unsupported("SymMap in %r" % type(container))

    def __sx_isinstance__(self, cls):
        cls = P._real_cls(cls)
        c = z3.simplify(self.cond_where(lambda v: isinstance(v, cls)))
        return EX().branch(c)

    def concrete(self, model):
        k = model.eval(self.key.t, model_completion=True).as_signed_long()
        return self.mapping.get(k, self.default)

    def __repr__(self):
        return "SymMap(%s, %s)" % (self.name, z3.simplify(self.key.t))


register_symbolic(SymMap)

_old_is = P._sx_is


def _sx_is(a, b):
    if b is None and isinstance(a, SymMap):
        return a.is_none()
    return _old_is(a, b)


P._sx_is = _sx_is
P._sx_is_not = lambda a, b: sym_not(_sx_is(a, b))


BIG = 6


class SymDict(dict):
    sx_name = None

    def _resolve(self, k):
        """map a symbolic key onto an existing concrete key it equals on this path (forks), else return k"""
        if not _is_sym_key(k):
            # concrete key: may equal an existing symbolic key
            if isinstance(k, (int, tuple)) and not isinstance(k, bool):
                for ek in list(dict.keys(self)):
                    if _is_sym_key(ek) and type(_strip(ek)) == type(k):
                        if bool(ek == k):
                            return ek
            return k
        for ek in list(dict.keys(self)):
            if not _is_sym_key(ek) and isinstance(ek, (int, tuple)):
                e = k == ek
                if e is False:
                    continue
                if bool(e):
                    return ek
        return k

    def _rope_lookup(self, rope, default):
        """a key built as text from symbolic integers (f"{a}_{b}") looked up in a table with concrete text keys: the
        decimal renderings are injective, so the lookup is a finite map applied to the integers themselves"""
        import re
        parts = rope.parts
        ints = [q for q in parts if not isinstance(q, str)]
        if not ints or not all(isinstance(q, SymInt) for q in ints):
            return _MISSING
        widths = []
        for q in ints:
            w = q.ub if q.ub is not None else None
            if w is None:
                t = z3.simplify(q.t)
                # non-negative by construction when the top bit of the (signed) term is a constant zero
                if t.size() >= 2 and z3.is_false(z3.simplify(z3.Extract(t.size() - 1, t.size() - 1, t) == 1)):
                    w = t.size() - 1
            if w is None or w > 24:
                return _MISSING
            widths.append(w)
        rx = ""
        prev_int = False
        for q in parts:
            if isinstance(q, str):
                rx += re.escape(q)
                prev_int = False
            else:
                if prev_int:
                    return _MISSING       # two numbers without a separator: the rendering is not injective
                rx += "(0|[1-9][0-9]*)"
                prev_int = True
        keys = list(dict.keys(self))
        if not all(isinstance(x, str) for x in keys):
            return _MISSING
        mapping = {}
        for ks in keys:
            mt = re.fullmatch(rx, ks)
            if mt is None:
                continue
            vals = [int(g) for g in mt.groups()]
            if any(v >= (1 << w) for v, w in zip(vals, widths)):
                continue
            comb = 0
            for v, w in zip(vals, widths):
                comb = (comb << w) | v
            mapping[comb] = dict.__getitem__(self, ks)
        terms = [z3.Extract(w - 1, 0, q.ext(w + 1)) for q, w in zip(ints, widths)]
        key = z3.Concat(z3.BitVecVal(0, 1), *terms)
        sm = SymMap(SymInt(key, sum(widths)), mapping, default, self.sx_name)
        sm.rope_parts = list(zip(ints, widths))
        return sm

    def _table_lookup(self, k, default):
        if type(k).__name__ == "SymRope":
            return self._rope_lookup(k, default)
        if isinstance(k, SymMap) and not any(_is_sym_key(x) for x in dict.keys(self)):
            # a looked-up value used as the key of another concrete table: the composition is again a finite map of the original key
            def thru(v):
                try:
                    return dict.get(self, v, default)
                except TypeError:
                    return default
            return SymMap(k.key, {kk: thru(v) for kk, v in k.mapping.items()}, thru(k.default), (k.name, self.sx_name))
        keys = list(dict.keys(self))
        if isinstance(k, SymInt) and _is_sym_key(k) and len(keys) > BIG and all(
                isinstance(x, int) and not isinstance(x, SymInt) for x in keys):
            return SymMap(k, dict(self), default, self.sx_name)
        return _MISSING

    def __getitem__(self, k):
        r = self._table_lookup(k, _MISSING)
        if r is not _MISSING:
            if bool(SymBool(z3.Not(r._member()))):
                raise KeyError(k)
            r.default = None
            return r
        return dict.__getitem__(self, self._resolve(k))

    def get(self, k, default=None):
        r = self._table_lookup(k, default)
        if r is not _MISSING:
            return r
        return dict.get(self, self._resolve(k), default)

    def __contains__(self, k):
        r = self._table_lookup(k, None)
        if r is not _MISSING:
            return SymBool(r._member())
        return dict.__contains__(self, self._resolve(k))

    def __sx_contains__(self, k):
        return self.__contains__(k)

    def __setitem__(self, k, v):
        dict.__setitem__(self, self._resolve(k), v)

    def __delitem__(self, k):
        dict.__delitem__(self, self._resolve(k))

    def pop(self, k, *d):
        return dict.pop(self, self._resolve(k), *d)

    def setdefault(self, k, d=None):
        return dict.setdefault(self, self._resolve(k), d)


def _strip(k):
    return 0 if isinstance(k, SymInt) else k


class SymSet(set):
    def _resolve(self, k):
        if not _is_sym_key(k):
            if isinstance(k, (int, tuple)) and not isinstance(k, bool):
                for ek in list(set.__iter__(self)):
                    if _is_sym_key(ek) and bool(ek == k):
                        return ek
            return k
        for ek in list(set.__iter__(self)):
            if not _is_sym_key(ek) and isinstance(ek, (int, tuple)):
                e = k == ek
                if e is False:
                    continue
                if bool(e):
                    return ek
        return k

    def __contains__(self, k):
        if hasattr(k, "__sx_in__"):
            return k.__sx_in__(set(self))
        return set.__contains__(self, self._resolve(k))

    def __sx_contains__(self, k):
        return self.__contains__(k)

    def add(self, k):
        set.add(self, self._resolve(k))

    def discard(self, k):
        set.discard(self, self._resolve(k))

    def remove(self, k):
        set.remove(self, self._resolve(k))


def sx_dict(*a, **k):
    return SymDict(*a, **k)


def sx_set(*a):
    return SymSet(*a)
