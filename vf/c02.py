"""C02 - decoding then re-encoding a payload reproduces it on all defined bits.
(I)  per encodable definition: real decode_pgn_* -> real _call_encode_function on a fully symbolic payload (exact
     bit-vector / binary64 terms): no raise, length, locality and bit identity of every float-free field.
(II) per float-scaled field: the real encode_pgn_* is run again with that one field symbolic over mathematical
     integers and the rounding-error model of binary64 (other fields concrete): round trip proved in NRA/LIA;
     a `sat` there is only a candidate and is re-asked in exact binary64 on the terms of (I) before it is reported."""
import os
import z3
from z3 import z3util

from . import loader, numkernel
from .c01 import Harness, layout, SUPPORTED
from .common import Report, guarded, merge_part
from .db import db
from .explorer import explore, prove, satisfiable, Unsupported, EX, has_fp
from .numkernel import Sig, run_kernel
from .proxies import SymInt, SymOpt, SymBytes, truth, int_from_bytes, ev
from .realmodel import SymIntZ, SymReal, ZBytes, real_context, rv
from . import proxies as P

PID = "C02"
ENC = ("NUMBER", "PGN", "RESERVED", "FLOAT", "LOOKUP", "DATE", "TIME", "DURATION")
_G = {}


def encodable(p):
    return all(f.fixed and f.type in ENC for f in p.fields)


def tvars(t):
    return {v.get_id(): v for v in z3util.get_vars(t)}


def base_raw(f):
    """a concrete raw value that decodes and re-encodes on the unmodified library"""
    if f.type in ("NUMBER", "PGN", "DURATION", "TIME"):
        return Sig(f).sentinel if f.len >= 2 else 0
    if f.type == "DATE":
        return 0
    if f.type == "FLOAT":
        return 0
    return (1 << f.len) - 1


@guarded
def _def_worker(idxs):
    from . import explorer
    explorer.STATS.__init__()
    D, H, tier = _G["D"], _G["H"], _G["tier"]
    rep = Report(PID, tier, 0, "other")
    R = H.R
    ns = H.ns
    n_defs = n_fields = 0
    for i in idxs:
        p = D.pgns[i]
        suffix = D.func_suffix(p)
        dec_fn, enc_name = ns.get("decode_pgn_%s" % suffix), "encode_pgn_%s" % suffix
        if dec_fn is None or enc_name not in ns:
            rep.violation({"kind": "codec-missing", "def": p.id}, "decode/encode function missing for %s" % p.id, {"kind": "missing", "def": p.id})
            continue
        pv, fvars, W = layout(p)
        payload = SymInt(z3.ZeroExt(1, pv))

        def h():
            mode, m, calls, lg = H.run_def(dec_fn, payload)
            ex = EX()
            n0 = len(ex.deferred)
            H.calls = []
            enc = R.encoder.NMEA2000Encoder()
            b = enc._call_encode_function(m)
            return m, calls, n0, b, list(H.calls)
        try:
            paths, ex = explore(h, max_paths=256)
        except Unsupported as e:
            rep.inconc("%s: %s" % (p.id, e))
            continue
        if ex.truncated:
            rep.inconc("%s: more than 256 paths" % p.id)
        n_defs += 1
        for pa in paths:
            dec_g = None
            if pa.kind == "raise":
                # raised concretely inside the encoder (converted to ValueError by _call_encode_function)
                guards = [g for g, _ in pa.deferred]      # decoder guards come first; all must be false for "accepted"
                acc = [z3.Not(g) for g in guards if not has_fp(g)]
                inrange = []
                for f_ in p.fields:
                    if f_.res is not None and f_.type in ("NUMBER", "PGN", "DURATION", "TIME", "DATE") and z3.is_const(fvars[f_.order]):
                        sg = Sig(f_)
                        inrange.append(z3.Or(numkernel.in_range_bv(sg, fvars[f_.order]), fvars[f_.order] == z3.BitVecVal(sg.sentinel, f_.len)))
                acc = acc + inrange
                bvpc = [c_ for c_ in pa.pc if not has_fp(c_)]
                st, m = satisfiable(z3.And(*(bvpc + acc))) if (bvpc or acc) else ("sat", None)
                if st == "unsat":
                    continue              # infeasible path (the float-free part of its condition is contradictory)
                st, m = satisfiable(z3.And(pa.cond(), *acc), timeout_ms=20000)
                if st == "sat":
                    pl = m.eval(pv, True).as_long()
                    rep.violation({"kind": "reencode-raises", "def": p.id, "exc": str(pa.value)[:60]},
                                  "%s: decoded message cannot be re-encoded (%s), payload %#x" % (p.id, str(pa.value)[:80], pl),
                                  {"kind": "roundtrip", "def": p.id, "payload": hex(pl)})
                elif st == "unknown":
                    rep.inconc("%s: raise path undecided" % p.id)
                continue
            if pa.kind != "return":
                rep.inconc("%s: path ended with %s" % (p.id, pa.kind))
                continue
            m, dcalls, n0, b, ecalls = pa.value
            dec_guards = pa.deferred[:n0]
            enc_guards = pa.deferred[n0:]
            if isinstance(b, SymBytes):
                blen = len(b)
                data = SymInt.lift(int_from_bytes(b, "little"))
            elif isinstance(b, bytes):
                blen = len(b)
                data = SymInt.lift(int.from_bytes(b, "little"))
            elif isinstance(b, P.SymBytesVar):
                blen = None            # no Length in the database: the library picks the minimal length
                data = b.value
            else:
                rep.inconc("%s: encoder returned %r" % (p.id, type(b).__name__))
                continue
            if p.length and blen != p.length:
                st, mm = satisfiable(pa.cond())
                pl = mm.eval(pv, True).as_long() if mm is not None else 0
                rep.violation({"kind": "length", "def": p.id}, "%s: re-encoded payload has %d bytes, definition says %d" % (p.id, blen, p.length),
                              {"kind": "roundtrip", "def": p.id, "payload": hex(pl)})
            # decoder guard of each field (by the variable it mentions)
            inrange = []
            for f_ in p.fields:
                if f_.res is not None and f_.type in ("NUMBER", "PGN", "DURATION", "TIME", "DATE") and z3.is_const(fvars[f_.order]):
                    sg = Sig(f_)
                    inrange.append(z3.Or(numkernel.in_range_bv(sg, fvars[f_.order]), fvars[f_.order] == z3.BitVecVal(sg.sentinel, f_.len)))
            guard_of = {}
            for g, _e in dec_guards:
                for vid in tvars(g):
                    guard_of.setdefault(vid, []).append(g)
            dw = max(data.w, W + 2)
            dt = data.ext(dw)
            for f in p.fields:
                fv = fvars[f.order]
                n_fields += 1
                T = z3.simplify(z3.Extract(f.off + f.len - 1, f.off, dt))
                others = [v for vid, v in tvars(T).items() if not (z3.is_const(fv) and vid == fv.get_id())]
                others = [v for v in others if not any(v.eq(pcv) for pcv in [])]
                acc = [z3.Not(g) for g in guard_of.get(fv.get_id(), [])] if z3.is_const(fv) else []
                if others:
                    # locality: the field's output bits must not depend on anything but the field's own input bits
                    ren = [(v, z3.BitVec(v.decl().name() + "_2", v.size())) for v in others]
                    st, mm = prove(T == z3.substitute(T, *ren), pa.pc, label="locality", timeout_ms=30000)
                    if st == "sat":
                        pl = mm.eval(pv, True).as_long()
                        rep.violation({"kind": "locality", "def": p.id, "field": f.id},
                                      "%s.%s: re-encoded bits depend on other fields' bits" % (p.id, f.id),
                                      {"kind": "roundtrip", "def": p.id, "payload": hex(pl)})
                        continue
                    if st == "unknown":
                        rep.inconc("%s.%s: locality undecided" % (p.id, f.id))
                        continue
                if has_fp(T) or any(has_fp(a) for a in acc):
                    _G["fp_fields"].append((i, f.order, T, acc, fv, list(pa.pc)))
                    continue
                st, mm = prove(T == fv, list(pa.pc) + acc + inrange, label="bits/%s/%d" % (f.type, f.len))
                if st == "sat":
                    pl = mm.eval(pv, True).as_long()
                    rep.violation({"kind": "bits", "def": p.id, "field": f.id},
                                  "%s.%s: re-encoded bits differ from the original (payload %#x)" % (p.id, f.id, pl),
                                  {"kind": "roundtrip", "def": p.id, "payload": hex(pl), "field": f.id})
                elif st == "unknown":
                    rep.inconc("%s.%s: bit identity undecided" % (p.id, f.id))
            # encoder guards free of floating point: must be false whenever the decoder accepted
            for g, exc in enc_guards:
                if has_fp(g):
                    continue          # belongs to a float-scaled field: decided in (II)
                acc = []
                for vid in tvars(g):
                    acc += [z3.Not(x) for x in guard_of.get(vid, []) if not has_fp(x)]
                st, mm = prove(z3.Not(g), list(pa.pc) + acc + inrange, label="enc-guard")
                if st == "sat":
                    pl = mm.eval(pv, True).as_long()
                    rep.violation({"kind": "reencode-raises", "def": p.id, "exc": type(exc).__name__},
                                  "%s: re-encoding raises %s for accepted payload %#x" % (p.id, type(exc).__name__, pl),
                                  {"kind": "roundtrip", "def": p.id, "payload": hex(pl)})
                elif st == "unknown":
                    rep.inconc("%s: encoder guard undecided" % p.id)
        if len(rep.samples) < 2:
            rep.sample({"definition": p.id, "paths": len(paths), "payload_bits": W})
    # (II) float-scaled fields of these definitions
    fpres = []
    for (i, order, T, acc, fv, pc) in _G["fp_fields"]:
        p = D.pgns[i]
        f = [x for x in p.fields if x.order == order][0]
        try:
            r = field_real_model(H, D, p, f)
        except Unsupported as e:
            rep.inconc("%s.%s (rounding model): %s" % (p.id, f.id, e))
            continue
        for kind, st, wit in r:
            if st == "unsat":
                continue
            # candidate (or undecided) in the rounding model: first try the candidate itself on the plain code,
            # then ask exact binary64 on the terms of (I)
            st2 = None
            import random
            rnd = random.Random(_G.get("seed", 0) * 1000003 + i * 131 + order)
            cands = ([int(wit)] if wit is not None else [])
            cands += [c_ for c_ in ((int(wit) + d_) for d_ in (-2, -1, 1, 2)) if 0 <= c_ < (1 << f.len)] if wit is not None else []
            lo_, hi_ = Sig(f).raw_range() if f.res is not None else (0, (1 << f.len) - 1)
            lo_ = 0 if lo_ is None else lo_
            hi_ = (1 << f.len) - 2 if hi_ is None else hi_
            cands += [x_ & ((1 << f.len) - 1) for x_ in (lo_, hi_, 0, 1, (1 << f.len) - 1, (1 << (f.len - 1)) - 1, 1 << (f.len - 1))]
            cands += [rnd.randint(lo_, hi_) & ((1 << f.len) - 1) for _ in range(300)]
            for cnd in cands:      # concretise the solver's candidate: any reproducing raw value near it / in range
                ok, _d = replay({"kind": "roundtrip_field", "def": p.id, "field": f.id, "raw": cnd})
                if ok:
                    st2, raw = "sat", cnd
                    break
            if st2 is None:
                st2, mm = prove(T == fv, pc + acc, label="exact-fp-roundtrip", timeout_ms=20000 if tier == "quick" else 600000)
                if st2 == "sat":
                    raw = mm.eval(fv, True).as_long()
            if st2 == "sat":
                rep.violation({"kind": "bits", "def": p.id, "field": f.id},
                              "%s.%s (%s, resolution %s): re-encoding raw %d gives other bits" % (p.id, f.id, f.type, f.res, raw),
                              {"kind": "roundtrip_field", "def": p.id, "field": f.id, "raw": raw})
            elif st2 == "unknown":
                rep.inconc("%s.%s: rounding model %s, exact binary64 query unanswered" % (p.id, f.id, st))
            break
        fpres.append((p.id, f.id))
    _G["fp_fields"] = []
    return dict(violations=rep.violations, inconclusive=rep.inconclusive, errors=rep.harness_errors,
                n_defs=n_defs, n_fields=n_fields, n_fp=len(fpres), samples=rep.samples, stats=explorer.STATS)


_RM_MEMO = {}


def field_real_model(H, D, p, f):
    """one field symbolic (mathematical integer x in [0, 2^L)), the rest concrete; real kernels for the decode side
    (with the database's arguments, C01 ties the generated decoder to them), real generated encoder for the way back"""
    key = (D.func_suffix(p), f.order)
    ns = H.ns
    sig = Sig(f) if f.res is not None else None
    base = 0
    for g in p.fields:
        base |= base_raw(g) << g.off
    dec_fn = ns["decode_pgn_%s" % D.func_suffix(p)]
    enc_fn = ns["encode_pgn_%s" % D.func_suffix(p)]
    m0 = dec_fn(base)
    idx = p.fields.index(f)
    L = f.len
    out = []
    with real_context() as c:
        xi = z3.Int("xi")
        x = SymIntZ(xi)
        U = H.R.utils
        if f.type == "FLOAT":
            raise Unsupported("FLOAT fields are decided exactly, not in the rounding model")
        v, rc_dec, _ = run_kernel(H.real["decode_number"], x, 0, L, sig.signed, sig.res_py, sig.min_py, sig.max_py)
        if f.type == "TIME":
            val, rc2, _ = run_kernel(H.real["decode_time"], v)
            rawv = v
        elif f.type == "DATE":
            val, rc2, _ = run_kernel(H.real["decode_date"], v)
            rawv = v
        else:
            val, rawv = v, v
        m0.fields[idx].value = val
        m0.fields[idx].raw_value = rawv
        paths, ex = explore(lambda: enc_fn(m0), max_paths=64)
        dom = [xi >= 0, xi < (1 << L), z3.Not(rc_dec)] + list(c.cons)
        for pa in paths:
            g = pa.cond()
            if pa.kind == "raise":
                st, mm = prove(z3.Not(g), dom, label="RT-noraise/%s" % sig.describe())
                out.append(("raise", st, (mm.eval(xi, True).as_long() if st == "sat" else None)))
                continue
            if pa.kind != "return":
                raise Unsupported("encoder path %s" % pa.kind)
            b = pa.value
            if isinstance(b, bytes):
                bits = z3.IntVal((int.from_bytes(b, "little") >> f.off) & ((1 << L) - 1))
            elif not isinstance(b, ZBytes):
                raise Unsupported("encoder returned %r in the rounding model" % type(b).__name__)
            else:
                bits = (b.value.t / (1 << f.off)) % (1 << L)
            noraise = z3.Not(z3.Or(*[dg for dg, _ in pa.deferred])) if pa.deferred else z3.BoolVal(True)
            if L > 48:
                # wider than 48 bits: "to within double-precision rounding of the scaled value"
                sb = z3.If(bits >= (1 << (L - 1)), bits - (1 << L), bits) if sig.signed else bits
                sx_ = z3.If(xi >= (1 << (L - 1)), xi - (1 << L), xi) if sig.signed else xi
                tol = z3.ToReal(z3.If(sx_ >= 0, sx_, -sx_)) * rv(numkernel.TOL) + 1
                same = z3.And(z3.ToReal(sb - sx_) <= tol, z3.ToReal(sx_ - sb) <= tol)
            else:
                same = bits == xi
            st, mm = prove(z3.And(noraise, same), dom + [g], label="RT/%s/%s" % (f.type, sig.describe()))
            out.append(("bits", st, (mm.eval(xi, True).as_long() if st == "sat" else None)))
    return out


@guarded
def _history_worker(pair):
    """(III) an encoder instance that has already encoded definition A encodes definition B exactly like a fresh one"""
    from . import explorer
    explorer.STATS.__init__()
    D, H = _G["D"], _G["H"]
    ia, ib = pair
    A, B = D.pgns[ia], D.pgns[ib]
    R = H.R
    rep = Report(PID, _G["tier"], 0, "other")
    baseA = 0
    for g in A.fields:
        baseA |= base_raw(g) << g.off
    decA = H.ns["decode_pgn_%s" % D.func_suffix(A)]
    decB = H.ns["decode_pgn_%s" % D.func_suffix(B)]
    pv, fvars, W = layout(B)
    payload = SymInt(z3.ZeroExt(1, pv))

    def enc_or_exc(enc, m):
        try:
            return ("ok", enc._call_encode_function(m))
        except Exception as e:
            return ("exc", type(e).__name__)

    def h():
        mA = decA(baseA)
        used = R.encoder.NMEA2000Encoder()
        enc_or_exc(used, mA)
        mode, mB, calls, lg = H.run_def(decB, payload)
        r1 = enc_or_exc(used, mB)
        r2 = enc_or_exc(R.encoder.NMEA2000Encoder(), mB)
        return r1, r2
    try:
        paths, ex = explore(h, max_paths=64)
    except Unsupported as e:
        rep.inconc("encoder history %s->%s: %s" % (A.id, B.id, e))
        paths = []
    for pa in paths:
        if pa.kind != "return":
            rep.inconc("encoder history %s->%s: path ended with %s %r" % (A.id, B.id, pa.kind, pa.value))
            continue
        r1, r2 = pa.value
        same = r1[0] == r2[0]
        claim = None
        if same and r1[0] == "exc":
            same = r1[1] == r2[1]
        elif same:
            b1, b2 = r1[1], r2[1]
            if isinstance(b1, (bytes, SymBytes)) and isinstance(b2, (bytes, SymBytes)):
                if len(b1) != len(b2):
                    same = False
                else:
                    claim = truth(SymInt.lift(int_from_bytes(b1, "little")) == SymInt.lift(int_from_bytes(b2, "little")))
            elif isinstance(b1, P.SymBytesVar) and isinstance(b2, P.SymBytesVar):
                claim = truth(b1.value == b2.value)
            else:
                same = type(b1) is type(b2)
        bad_model = None
        inrange = []
        for f_ in B.fields:
            if f_.res is not None and f_.fixed and f_.type in ("NUMBER", "PGN", "DURATION", "TIME", "DATE") and z3.is_const(fvars[f_.order]):
                sg = Sig(f_)
                inrange.append(z3.Or(numkernel.in_range_bv(sg, fvars[f_.order]), fvars[f_.order] == z3.BitVecVal(sg.sentinel, f_.len)))
        if not same:
            st, bad_model = satisfiable(z3.And(*([c_ for c_ in pa.pc if not has_fp(c_)] + inrange + [pv == pv])))
            if st == "unsat":
                continue
        elif claim is not None:
            st, mm = prove(claim, [c_ for c_ in pa.pc] + inrange, label="encoder-history", timeout_ms=20000)
            if st == "sat":
                same, bad_model = False, mm
            elif st == "unknown":
                rep.inconc("encoder history %s->%s undecided" % (A.id, B.id))
        if not same:
            pl = bad_model.eval(pv, True).as_long() if bad_model is not None else 0
            rep.violation({"kind": "encoder-history", "pgn": B.pgn},
                          "an encoder that has encoded %s encodes %s (payload %#x) differently from a fresh encoder: %s vs %s"
                          % (A.id, B.id, pl, r1[0], r2[0]),
                          {"kind": "history", "def": B.id, "first": A.id, "second": B.id, "payload": hex(pl)})
    return dict(violations=rep.violations, inconclusive=rep.inconclusive, errors=rep.harness_errors, stats=explorer.STATS)


def run(tier, seed):
    import multiprocessing as mp
    from . import explorer
    rep = Report(PID, tier, seed, "other")
    D = db()
    H = Harness()
    _G.update(D=D, H=H, tier=tier, fp_fields=[], seed=seed)
    enc = [i for i, p in enumerate(D.pgns) if encodable(p)]
    # shadowed definitions (same PGN, no match fields) are never produced by the decoder
    enc = [i for i in enc if not (len(D.groups[D.pgns[i].pgn]) > 1 and not D.multi(D.pgns[i].pgn)
                                  and D.pgns[i] is not ([q for q in D.groups[D.pgns[i].pgn] if not q.fallback] or D.groups[D.pgns[i].pgn])[0])]
    rep.functions = ["pgns.decode_pgn_* and pgns.encode_pgn_* of %d encodable definitions" % len(enc),
                     "encoder.NMEA2000Encoder._call_encode_function", "message.get_field_by_id",
                     "utils.encode_number / encode_float / encode_date / encode_time, utils.decode_*"]
    rep.bounds = {"payload": "all bit patterns the decoder accepts", "definitions": len(enc),
                  "float-scaled fields": "proved in the rounding-error model (every binary64 execution is a model); "
                                         "fields wider than 48 bits: same obligation (exact identity) - a failure there is reported only if exact binary64 confirms"}
    rep.outside = ["definitions that are not encodable (a field type without encoder or a variable position)",
                   "payloads the decoder rejects", "unit-converted messages"]
    nproc = max(1, min(16, os.cpu_count() or 1))
    order = sorted(enc, key=lambda i: -len(D.pgns[i].fields))
    chunks = [order[k::nproc] for k in range(nproc)]
    ctx = mp.get_context("fork")
    n_defs = n_fields = n_fp = 0
    with ctx.Pool(nproc) as pool:
        for part in pool.imap_unordered(_def_worker, chunks, chunksize=1):
            for v in part["violations"]:
                rep.violation(*v)
            rep.inconclusive += part["inconclusive"]
            rep.harness_errors += part["errors"]
            n_defs += part.get("n_defs", 0)
            n_fields += part.get("n_fields", 0)
            n_fp += part.get("n_fp", 0)
            for s in part["samples"]:
                rep.sample(s)
            explorer.STATS.merge(part["stats"])
        # (III) encoder history independence over the multi-definition PGNs
        pairs = []
        for pgn, group in D.groups.items():
            g = [D.pgns.index(q) for q in group if D.pgns.index(q) in enc]
            if D.multi(pgn) and len(g) >= 2:
                pairs += list(zip(g, g[1:])) + [(g[-1], g[0])]
        if tier == "quick":
            pairs = pairs[::3] if len(pairs) > 40 else pairs
        for part in pool.imap_unordered(_history_worker, pairs, chunksize=2):
            for v in part["violations"]:
                rep.violation(*v)
            rep.inconclusive += part["inconclusive"]
            rep.harness_errors += part["errors"]
            explorer.STATS.merge(part["stats"])
        rep.count("encoder_history_pairs", len(pairs))
    rep.count("definitions", n_defs)
    rep.count("fields", n_fields)
    rep.count("float_scaled_fields_in_rounding_model", n_fp)
    if n_defs < len(enc):
        rep.inconc("only %d of %d encodable definitions were explored" % (n_defs, len(enc)))
    rep.coverage.update(explanation="bounded symbolic verification: %d encodable definitions, %d fields; every obligation is a z3 query over all "
                                    "payload bits of the field (QF_BV exact; float-scaled fields in the rounding-error model, exact binary64 for counterexamples)" % (n_defs, n_fields))
    rep.assumptions = ["the decoder accepted the payload (its range checks did not raise)",
                       "C01 ties each generated decoder field to decode_number(database arguments); (II) starts from those kernels"]
    return rep.finish(replay)


def replay(r):
    from .plain import plain
    N = plain()
    D = db()
    p = [q for q in D.pgns if q.id == r["def"]]
    if not p:
        return None, "no such definition"
    p = p[0]
    suffix = D.func_suffix(p)
    dec = N.pgns.__dict__.get("decode_pgn_%s" % suffix)
    if r["kind"] == "missing":
        return dec is None or ("encode_pgn_%s" % suffix) not in N.pgns.__dict__, "missing"
    if r["kind"] == "history":
        A = [q for q in D.pgns if q.id == r["first"]][0]
        baseA = 0
        for g in A.fields:
            baseA |= base_raw(g) << g.off
        payload = int(r["payload"], 16)
        mA = N.pgns.__dict__["decode_pgn_%s" % D.func_suffix(A)](baseA)

        def eo(enc, m):
            try:
                return ("ok", enc._call_encode_function(m))
            except Exception as e:
                return ("exc", type(e).__name__)
        try:
            mB = dec(payload)
        except Exception as e:
            return False, "decoder rejects: %r" % (e,)
        used = N.encoder.NMEA2000Encoder()
        eo(used, mA)
        r1, r2 = eo(used, mB), eo(N.encoder.NMEA2000Encoder(), mB)
        return r1 != r2, "used encoder: %r, fresh encoder: %r" % (r1, r2)
    if r["kind"] == "roundtrip_field":
        f = [x for x in p.fields if x.id == r["field"]][0]
        payload = 0
        for g in p.fields:
            payload |= base_raw(g) << g.off
        payload &= ~(((1 << f.len) - 1) << f.off)
        payload |= r["raw"] << f.off
    else:
        payload = int(r["payload"], 16)
    nb = p.length or (max(f.off + f.len for f in p.fields) + 7) // 8
    payload &= (1 << (8 * nb)) - 1
    try:
        m = dec(payload)
    except Exception as e:
        return False, "decoder rejects the payload: %r" % (e,)
    try:
        b = N.encoder.NMEA2000Encoder()._call_encode_function(m)
    except Exception as e:
        return True, "payload %#x decodes but re-encoding raises %r" % (payload, e)
    out = int.from_bytes(b, "little")
    diffs = []
    for f in p.fields:
        mask = ((1 << f.len) - 1) << f.off
        if (out ^ payload) & mask:
            diffs.append("%s: %#x -> %#x" % (f.id, (payload & mask) >> f.off, (out & mask) >> f.off))
    if p.length and len(b) != p.length:
        diffs.append("length %d != %d" % (len(b), p.length))
    return bool(diffs), "payload %#x re-encodes to %#x; %s" % (payload, out, "; ".join(diffs))
