"""C11 - messages carry the identity of their source's latest address claim; manufacturer filtering; discovery window.
The real _decode/_call_decode_function/IsoName run on explorer-enumerated histories of claims and data from two
symbolic source addresses with symbolic 64-bit NAMEs, for every configuration of manufacturer lists (three letter
cases), network mapping on/off and discovery window open/closed.  A reference model written from the property text
(latest claim per address) is evaluated alongside; z3 proves, per returned or withheld message, that the decision and
the attached identity are those of the reference."""
import itertools
from datetime import datetime, timedelta
import z3

from .common import Report, guarded, run_jobs
from .db import db
from .explorer import explore, prove, satisfiable, Unsupported, EX
from .hist import World, feed, eq_any, CLAIM
from .proxies import SymInt, SymOpt, truth, is_symbolic
from .numkernel import eq_term
from .symcoll import SymMap

PID = "C11"
_G = {}
MFR_LISTS = [(), ("Garmin",), ("GARMIN",), ("garmin",), ("Airmar", "Garmin"), ("Navico",), ("no such maker",)]
EV = [("claim1", "a"), ("claim2", "a"), ("claim1", "b"), ("single", "a"), ("single", "b"), ("fast_first", "a"), ("fast_last", "a")]


def passes(table, code, excl, incl):
    """z3 Bool: the manufacturer behind `code` (11 bits) passes the lists; unknown codes pass (no manufacturer to filter on)"""
    ex = {x.lower() for x in excl}
    inc = {x.lower() for x in incl}
    ok = []
    known = []
    for k, name in table.items():
        known.append(code == k)
        good = name.lower() not in ex and (not inc or name.lower() in inc)
        if good:
            ok.append(code == k)
    return z3.Or(z3.Not(z3.Or(*known)), z3.Or(*ok) if ok else z3.BoolVal(False)), z3.Or(*known)


@guarded
def _worker(job):
    from . import explorer
    explorer.STATS.__init__()
    R = _G["R"]
    D = db()
    table = D.lookups["MANUFACTURER_CODE"]
    rep = Report(PID, _G["tier"], 0, "model_checking")
    configs, histories = job
    w = World()
    states = trans = 0
    import time as _time
    t_stop = _time.time() + (450 if _G["tier"] == "quick" else 4300)
    from . import explorer as _ex
    _ex.DEADLINE[0] = min(_ex.DEADLINE[0] or 1e18, t_stop + 120)        # a single exploration must not outlive the job either
    for (excl, incl, mapping, window_open) in configs:
        if _time.time() > t_stop:
            rep.inconc("time budget of the worker exhausted before configuration %r" % ((excl, incl, mapping, window_open),))
            break
        if len(rep.violations) >= 3:
            break          # enough (distinct) counterexamples from this share of the configurations
        for hist in histories:
            if len(rep.violations) >= 3 or _time.time() > t_stop:
                break
            def h():
                dec = R.decoder.NMEA2000Decoder(exclude_manufacturer_code=list(excl), include_manufacturer_code=list(incl), build_network_map=mapping)
                dec.started_at = datetime.now() - (timedelta(seconds=5) if window_open else timedelta(minutes=11))
                outs = []
                for kind, who in hist:
                    outs.append((kind, who, feed(dec, w, kind, who)[-1]))
                return outs, dec
            try:
                paths, ex = explore(h, max_paths=512, assumptions=w.assume)
            except Unsupported as e:
                rep.inconc("config %r history %r: %s" % ((excl, incl, mapping, window_open), hist, e))
                continue
            states += len(paths)
            for pa in paths:
                def wit(m):
                    return {"kind": "claims", "exclude": list(excl), "include": list(incl), "mapping": mapping, "window_open": window_open,
                            "history": [list(x) for x in hist], "sa": m.eval(w.sa, True).as_long(), "sb": m.eval(w.sb, True).as_long(),
                            "name1": m.eval(w.name1, True).as_long(), "name2": m.eval(w.name2, True).as_long(),
                            "head": m.eval(w.head, True).as_long(), "soc": m.eval(w.soc, True).as_long()}
                st0, m0 = satisfiable(z3.And(pa.cond(), *w.assume))
                if st0 != "sat":
                    continue
                if pa.kind != "return":
                    rep.violation({"kind": "claims-raise"}, "decoder raised %r" % (pa.value,), wit(m0))
                    continue
                outs, dec = pa.value
                latest = {}
                pending = {}
                claims = []
                for pos, (kind, who, ret) in enumerate(outs):
                    trans += 1
                    if kind.startswith("claim"):
                        latest[who] = w.name1 if kind == "claim1" else w.name2
                        if ret is None:
                            claims.append(("claim from %s withheld" % who, z3.BoolVal(False)))
                        else:
                            claims.append(("claim carries its own identity", _identity_claim(ret, latest[who], table)))
                        continue
                    if who not in latest:
                        exp = z3.BoolVal(not (mapping and window_open))
                        expect_iso = None
                    else:
                        code = z3.Extract(31, 21, latest[who])
                        exp, known = passes(table, code, excl, incl)
                        expect_iso = latest[who]
                    if kind == "fast_first":
                        pending[who] = exp
                        if ret is not None:
                            claims.append(("first frame of a fast packet returned a message", z3.BoolVal(False)))
                        continue
                    if kind == "fast_last":
                        exp = z3.And(exp, pending.get(who, z3.BoolVal(False)))
                        pending.pop(who, None)
                    got = ret is not None
                    claims.append(("position %d (%s from %s): message %s" % (pos, kind, who, "returned although it must be withheld" if got else "withheld although it must be returned"),
                                   exp if got else z3.Not(exp)))
                    if got:
                        if expect_iso is None:
                            claims.append(("position %d: identity attached although %s never claimed" % (pos, who), z3.BoolVal(ret.source_iso_name is None)))
                        elif ret.source_iso_name is None:
                            claims.append(("position %d: no identity although %s has claimed" % (pos, who), z3.BoolVal(False)))
                        else:
                            claims.append(("position %d: identity is not the latest claim of %s" % (pos, who), _identity_claim(ret, expect_iso, table)))
                for text, cl in claims:
                    if z3.is_true(z3.simplify(cl)):
                        continue
                    st, m = prove(cl, w.assume + pa.pc, label="claims")
                    if st == "sat":
                        rep.violation({"kind": "claims", "what": text.split(":")[-1].strip()[:40], "mapping": mapping, "window": window_open},
                                      "exclude=%r include=%r mapping=%s window_open=%s: %s" % (list(excl), list(incl), mapping, window_open, text), wit(m))
                        break
                    elif st == "unknown":
                        rep.inconc("claims undecided")
    rep.sample({"configs": len(configs), "histories": len(histories), "example": [list(x) for x in histories[0]] if histories else None})
    return dict(violations=rep.violations, inconclusive=rep.inconclusive, errors=rep.harness_errors, samples=rep.samples, stats=explorer.STATS, states=states, trans=trans)


def _identity_claim(msg, name, table):
    iso = msg.source_iso_name
    if iso is None:
        return z3.BoolVal(False)

    def bv(hi, lo):
        return SymInt(z3.ZeroExt(1, z3.Extract(hi, lo, name)), hi - lo + 1)
    cl = [eq_term(iso.name, SymInt(z3.ZeroExt(1, name), 64)),
          eq_term(iso.unique_number, bv(20, 0)),
          eq_term(iso.device_instance, (bv(39, 35) << 3) | bv(34, 32)),
          eq_term(iso.system_instance, bv(59, 56))]
    mc = iso.manufacturer_code
    if isinstance(mc, SymMap):
        cl.append(z3.BoolVal(dict(mc.mapping) == table))
        cl.append(eq_term(mc.key, bv(31, 21)))
    elif mc is None:
        cl.append(z3.Not(z3.Or(*[z3.Extract(31, 21, name) == k for k in table])))
    else:
        cl.append(z3.Or(*[z3.Extract(31, 21, name) == k for k, v in table.items() if v == mc]))
    return z3.And(*cl)


def run(tier, seed):
    from . import explorer
    from .c01 import Harness
    rep = Report(PID, tier, seed, "model_checking")
    R = Harness().R
    _G.update(R=R, tier=tier)
    configs = []
    for mapping in (False, True):
        for window_open in ((True, False) if mapping else (True,)):
            for l in (MFR_LISTS if tier == "thorough" else [(), ("GARMIN",), ("Airmar", "Garmin"), ("no such maker",)]):
                configs.append((l, (), mapping, window_open))
                if l:
                    configs.append(((), l, mapping, window_open))
    histories = [tuple(x) for n in (1, 2) for x in itertools.product(EV, repeat=n)]
    if tier == "quick":
        histories = [hh for hh in histories if len(hh) == 1 or hh[0][0].startswith("claim") or hh[0][0] == "fast_first"]
    histories += [(("single", "a"), ("claim1", "a"), ("single", "a"), ("claim2", "a"), ("single", "a")),
                  (("claim1", "a"), ("claim1", "b"), ("single", "a"), ("single", "b"), ("claim2", "a"), ("single", "b"), ("single", "a")),
                  (("fast_first", "a"), ("claim1", "a"), ("fast_last", "a"), ("single", "a")),
                  (("claim1", "a"), ("fast_first", "a"), ("claim2", "a"), ("fast_last", "a")),
                  (("claim1", "a"), ("claim1", "a"), ("single", "a"), ("claim1", "b"), ("single", "a"))]
    if tier == "thorough":
        histories += [tuple(x) for x in itertools.product(EV, repeat=3)]
    rep.functions = ["decoder.NMEA2000Decoder.__init__ (manufacturer sets)", "decoder._decode (identity lookup, discovery window, manufacturer filter)",
                     "decoder._call_decode_function (claim handling)", "decoder._decode_fast_message", "message.IsoName.__init__", "message.add_data", "pgns.decode_pgn_60928"]
    rep.bounds = {"histories": "%d: all sequences of <= 2 events over %d event kinds + 5 longer ones%s" % (len(histories), len(EV), " + all triples" if tier == "thorough" else ""),
                  "configurations": "%d: manufacturer exclude/include lists (3 letter cases, two makers, unknown maker) x mapping on/off x window open/closed" % len(configs),
                  "data": "symbolic source addresses and NAMEs (manufacturer code free: known or unknown maker)"}
    rep.outside = ["NAMEs whose manufacturer code is not in the database are only required to pass the lists", "the exact 10-minute boundary of the discovery window (5 s and 11 min are used)"]
    rep.stubs = ["decoder.started_at is set to now-5s / now-11min by the harness"]
    nproc = 16
    jobs = [(configs[k::nproc], histories) for k in range(nproc)]
    parts = run_jobs(rep, _worker, jobs, timeout_s=800 if tier == "quick" else 4800)
    st = sum(p["states"] for p in parts if p and "states" in p)
    tr = sum(p["trans"] for p in parts if p and "trans" in p)
    rep.count("configurations", len(configs))
    rep.count("histories", len(histories))
    rep.coverage.update(states=max(1, st), transitions=max(1, tr), traces_validated_against_impl=0,
                        explanation="states = explored (configuration, history, path) triples; transitions = events fed to the real decoder")
    rep.assumptions = ["the two source addresses differ, the two NAMEs differ", "NAME: device class/function fixed, numeric fields not 'not available', industry group 4"]
    return rep.finish(replay)


def replay(r):
    from .plain import plain
    from . import c10
    N = plain()
    D = db()
    table = D.lookups["MANUFACTURER_CODE"]
    TS = datetime(2020, 1, 1)
    dec = N.decoder.NMEA2000Decoder(exclude_manufacturer_code=list(r["exclude"]), include_manufacturer_code=list(r["include"]), build_network_map=r["mapping"])
    dec.started_at = datetime.now() - (timedelta(seconds=5) if r["window_open"] else timedelta(minutes=11))
    from .hist import P_SINGLE, P_FAST

    def frames(kind):
        if kind == "single":
            return [(P_SINGLE, bytes([1]) + r["head"].to_bytes(2, "little") + bytes([0xFF, 0x7F, 0xFF, 0x7F, 0xFD]))]
        if kind in ("fast_first", "fast_last"):
            pay = bytes([1, 0, r["soc"], 0x64] + [0xFF] * 7)
            fs = [(P_FAST, bytes([0x40, 11]) + pay[:6]), (P_FAST, bytes([0x41]) + pay[6:] + b"\xff\xff")]
            return fs[:1] if kind == "fast_first" else fs[1:]
        return [(CLAIM, r["name1" if kind == "claim1" else "name2"].to_bytes(8, "little"))]
    latest = {}
    pending = {}
    problems = []
    ex = {x.lower() for x in r["exclude"]}
    inc = {x.lower() for x in r["include"]}
    for pos, (kind, who) in enumerate(r["history"]):
        src = r["sa"] if who == "a" else r["sb"]
        ret = None
        for pgn, body in frames(kind):
            try:
                ret = dec._decode(pgn, 3, src, 255, TS, body[::-1], b"")
            except Exception as e:
                return True, "raised %r" % (e,)
        def identity_ok(iso, name):
            """every attribute of the identity, recomputed from the 64-bit NAME with the database tables"""
            cls_, fn_ = (name >> 49) & 0x7F, (name >> 40) & 0xFF
            want = dict(name=name, unique_number=name & 0x1FFFFF, manufacturer_code=table.get((name >> 21) & 0x7FF),
                        device_instance=(((name >> 35) & 0x1F) << 3) | ((name >> 32) & 0x7), system_instance=(name >> 56) & 0xF,
                        device_function=D.indirect.get("DEVICE_FUNCTION", {}).get("%d_%d" % (cls_, fn_)),
                        device_class=D.lookups.get("DEVICE_CLASS", {}).get(cls_), industry_group=D.lookups.get("INDUSTRY_CODE", {}).get((name >> 60) & 0x7))
            return [k for k, v in want.items() if getattr(iso, k, None) != v]
        if kind.startswith("claim"):
            latest[who] = r["name1" if kind == "claim1" else "name2"]
            if ret is None or ret.source_iso_name is None or ret.source_iso_name.name != latest[who]:
                problems.append("position %d: claim not returned with its identity" % pos)
            elif identity_ok(ret.source_iso_name, latest[who]):
                problems.append("position %d: identity of the claim differs from its NAME %#x in %r" % (pos, latest[who], identity_ok(ret.source_iso_name, latest[who])))
            continue
        if who not in latest:
            exp = not (r["mapping"] and r["window_open"])
            name = None
        else:
            name = latest[who]
            mfr = table.get((name >> 21) & 0x7FF)
            exp = True if mfr is None else (mfr.lower() not in ex and (not inc or mfr.lower() in inc))
        if kind == "fast_first":
            pending[who] = exp
            continue
        if kind == "fast_last":
            exp = exp and pending.pop(who, False)
        if (ret is not None) != exp:
            problems.append("position %d (%s from %s): %s" % (pos, kind, who, "returned, must be withheld" if ret is not None else "withheld, must be returned"))
        elif ret is not None:
            iso = ret.source_iso_name
            if (iso is None) != (name is None) or (iso is not None and (iso.name != name or iso.unique_number != name & 0x1FFFFF or
                                                                    iso.manufacturer_code != table.get((name >> 21) & 0x7FF))):
                problems.append("position %d: identity %r, latest claim NAME %r" % (pos, None if iso is None else iso.name, name))
            elif iso is not None and identity_ok(iso, name):
                problems.append("position %d: identity differs from the latest claim NAME %#x in %r" % (pos, name, identity_ok(iso, name)))
    return bool(problems), "; ".join(problems[:3])
