"""C05 - CAN identifier packing and parsing are mutually inverse (PDU1/PDU2 aware).
Finite domain, fully covered by the solver: the real _extract_header/_build_header (and the wire-format
front ends around them) are executed over symbolic 29-bit identifiers / symbolic addressing."""
import z3
from . import loader, textsym
from .common import Report
from .explorer import explore, prove, satisfiable, Unsupported
from .proxies import SymInt, SymBytes, ev, truth

PID = "C05"


def spec_pdu1(pgn_t):
    """PF < 240"""
    return z3.ULT(z3.Extract(15, 8, pgn_t), z3.BitVecVal(0xF0, 8))


def run(tier, seed):
    rep = Report(PID, tier, seed, "proof")
    R = loader.load()
    Dec, Enc = R.decoder.NMEA2000Decoder, R.encoder.NMEA2000Encoder
    rep.functions = ["decoder.NMEA2000Decoder._extract_header", "encoder.NMEA2000Encoder._build_header",
                     "encoder.encode_ebyte/encode_usb/encode_yacht_devices/encode_actisense (header part)",
                     "decoder.decode_tcp/decode_usb/decode_yacht_devices_string/decode_actisense_string (header part)",
                     "utils.calculate_canbus_checksum"]
    rep.bounds = {"identifier": "all 2^29 values (symbolic)", "priority": "0..7", "source": "0..255",
                  "destination": "0..255", "pgn": "all 2^18 values; canonical = PDU1 PGNs have PS byte 0",
                  "history": "2 consecutive encodes on one encoder instance (wire formats)"}
    rep.outside = ["source/destination outside 0..255", "PDU1 PGN numbers with a non-zero PS byte (non-canonical PGN)"]
    obligations = 0
    discharged = 0

    def oblig(claim, assumptions, label, key, text, mk_replay):
        nonlocal obligations, discharged
        obligations += 1
        st, m = prove(claim, assumptions, label=label)
        if st == "unsat":
            discharged += 1
        elif st == "sat":
            rep.violation(key, text, mk_replay(m))
        else:
            rep.inconc("%s: solver %s" % (label, m))
        return st

    # ---- 1. every identifier parses to values from which the identical identifier is rebuilt
    fidv = z3.BitVec("fid", 29)

    def h1():
        fid = SymInt(z3.ZeroExt(1, fidv))
        pgn, src, dst, prio = Dec._extract_header(fid)
        return (pgn, src, dst, prio), Enc._build_header(pgn, src, dst, prio)
    paths, ex = explore(h1)
    reach = 0
    for p in paths:
        if p.kind != "return":
            rep.violation({"kind": "parse-raises"}, "_extract_header raised %r" % (p.value,),
                          {"kind": "parse_build", "fid": _model_int(ex, p, fidv)})
            continue
        (pgn, src, dst, prio), fid2 = p.value
        fid2 = SymInt.lift(fid2)
        w = max(fid2.w, 30)
        claim = fid2.ext(w) == z3.ZeroExt(w - 29, fidv)
        oblig(claim, p.pc, "parse-build/%d" % reach, {"kind": "parse-build-identity"},
              "an identifier does not survive parse -> build", lambda m: {"kind": "parse_build", "fid": m.eval(fidv, True).as_long()})
        # ranges and PDU rule of the parsed values
        pg = SymInt.lift(pgn)
        d = SymInt.lift(dst)
        pf = z3.Extract(23, 16, fidv)
        rule = z3.If(z3.ULT(pf, 0xF0),
                     z3.And(truth(d == SymInt(z3.ZeroExt(1, z3.Extract(15, 8, fidv)))),
                            truth(pg == SymInt(z3.ZeroExt(1, z3.Concat(z3.Extract(25, 16, fidv), z3.BitVecVal(0, 8)))))),
                     z3.And(truth(d == 255), truth(pg == SymInt(z3.ZeroExt(1, z3.Extract(25, 8, fidv))))))
        rule = z3.And(rule, truth(SymInt.lift(src) == SymInt(z3.ZeroExt(1, z3.Extract(7, 0, fidv)))),
                      truth(SymInt.lift(prio) == SymInt(z3.ZeroExt(1, z3.Extract(28, 26, fidv)))))
        oblig(rule, p.pc, "parse-rule/%d" % reach, {"kind": "parse-rule"},
              "parsed (pgn, src, dest, prio) is not the J1939 PDU1/PDU2 reading of the identifier",
              lambda m: {"kind": "parse_rule", "fid": m.eval(fidv, True).as_long()})
        st, _ = satisfiable(p.cond())
        if st == "sat":
            reach += 1
    if reach < 2:
        rep.error("reachability: expected both the PDU1 and the PDU2 path of _extract_header, got %d" % reach)
    rep.sample({"obligation": "forall fid in [0,2^29): build(parse(fid)) == fid", "paths": len(paths)})

    # ---- 2/3. build -> parse for canonical inputs (and PDU2 with any destination)
    pr, sr, ds, pg = z3.BitVec("prio", 3), z3.BitVec("src", 8), z3.BitVec("dst", 8), z3.BitVec("pgn", 18)
    canon = z3.Implies(spec_pdu1(pg), z3.Extract(7, 0, pg) == 0)

    def h2():
        a = [SymInt(z3.ZeroExt(1, v)) for v in (pg, sr, ds, pr)]
        fid = Enc._build_header(*a)
        return fid, Dec._extract_header(fid)
    paths, ex = explore(h2, assumptions=[canon])
    n2 = 0
    for p in paths:
        if p.kind != "return":
            rep.violation({"kind": "build-raises"}, "raised %r" % (p.value,), {"kind": "build_parse", **_m4(ex, p, pg, sr, ds, pr)})
            continue
        fid, (pgn2, src2, dst2, prio2) = p.value
        fid = SymInt.lift(fid)
        exp_dst = z3.If(spec_pdu1(pg), z3.ZeroExt(2, ds), z3.BitVecVal(255, 10))
        claim = z3.And(truth(SymInt.lift(pgn2) == SymInt(z3.ZeroExt(1, pg))),
                       truth(SymInt.lift(src2) == SymInt(z3.ZeroExt(1, sr))),
                       truth(SymInt.lift(prio2) == SymInt(z3.ZeroExt(1, pr))),
                       truth(SymInt.lift(dst2) == SymInt(exp_dst)),
                       truth(fid >= 0), truth(fid < (1 << 29)))
        oblig(claim, [canon] + p.pc, "build-parse/%d" % n2, {"kind": "build-parse"},
              "(prio, src, dst, pgn) does not survive build -> parse",
              lambda m: {"kind": "build_parse", **{k: m.eval(v, True).as_long() for k, v in
                                                     (("pgn", pg), ("src", sr), ("dst", ds), ("prio", pr))}})
        n2 += 1
    # injectivity on canonical tuples follows from 2 (parse is a left inverse); state it as its own obligation
    rep.sample({"obligation": "forall canonical (prio,src,dst,pgn): parse(build(.)) == (pgn,src,dst|255,prio)", "paths": len(paths)})

    # ---- 4. the same through the wire formats, two consecutive encodes on ONE encoder instance
    from . import wire
    for fmt in ("ebyte", "usb", "yacht", "actisense"):
        try:
            wire.header_roundtrip(R, fmt, rep, oblig)
        except Unsupported as e:
            rep.inconc("wire format %s: %s" % (fmt, e))

    # ---- 5. the header values reported for a reassembled fast-packet message are those of its own frames' identifier, also
    # when an unfinished transmission with another priority preceded it on the same (PGN, source, destination)
    from .c03 import pick_fast_pgns
    from .db import db as _db
    fpgn = pick_fast_pgns(_db())[0]
    p1, p2, sv, s1, s2 = z3.BitVec("prio1", 3), z3.BitVec("prio2", 3), z3.BitVec("fsrc", 8), z3.BitVec("seq1", 3), z3.BitVec("seq2", 3)
    pays = [SymInt.var("fb%d" % i, 8) for i in range(13)]

    def eb(prio_t, seq_t, idx, body):
        fid = z3.Concat(prio_t, z3.BitVecVal(fpgn & 0x3FFFF, 18), sv) if ((fpgn >> 8) & 0xFF) >= 240 else z3.Concat(prio_t, z3.BitVecVal((fpgn >> 8) & 0x3FF, 10), z3.BitVecVal(255, 8), sv)
        idb = [SymInt(z3.ZeroExt(1, z3.Extract(8 * i + 7, 8 * i, z3.ZeroExt(3, fid))), 8) for i in (3, 2, 1, 0)]
        fr = [SymInt(z3.ZeroExt(1, z3.Concat(seq_t, z3.BitVecVal(idx, 5))), 8)] + ([13] if idx == 0 else []) + body
        from .proxies import SymBytes
        return SymBytes([0x80 | len(fr)] + idb + fr + [0] * (8 - len(fr)))

    def h5():
        dec = R.decoder.NMEA2000Decoder()
        calls = []
        dec._call_decode_function = lambda pgn_, pr_, s_, d_, ts_, dat, iso, raw: calls.append((pgn_, pr_, s_, d_)) or "MSG"
        dec.decode_tcp(eb(p1, s1, 0, pays[:6]))                  # cut short: only the first frame of a transmission with priority p1
        r1 = dec.decode_tcp(eb(p2, s2, 0, pays[:6]))
        r2 = dec.decode_tcp(eb(p2, s2, 1, pays[6:13]))
        return r1, r2, calls
    try:
        paths5, ex5 = explore(h5, max_paths=64, assumptions=[s1 != s2])
        for pa in paths5:
            if pa.kind != "return":
                st0, m0 = satisfiable(z3.And(pa.cond(), s1 != s2))
                if st0 == "sat":
                    rep.violation({"kind": "fast-header"}, "fast-packet frames raised %r" % (pa.value,), {"kind": "fast_header", "prio1": m0.eval(p1, True).as_long(), "prio2": m0.eval(p2, True).as_long(), "src": m0.eval(sv, True).as_long(), "seq1": m0.eval(s1, True).as_long(), "seq2": m0.eval(s2, True).as_long()})
                continue
            r1, r2, calls = pa.value
            ok5 = r1 is None and r2 == "MSG" and len(calls) == 1
            claim5 = z3.And(truth(SymInt.lift(calls[0][1]) == SymInt(z3.ZeroExt(1, p2))), truth(SymInt.lift(calls[0][2]) == SymInt(z3.ZeroExt(1, sv))),
                            truth(SymInt.lift(calls[0][3]) == 255), truth(SymInt.lift(calls[0][0]) == fpgn)) if ok5 else z3.BoolVal(False)
            oblig(claim5, [s1 != s2] + pa.pc, "fast-header", {"kind": "fast-header"},
                  "a reassembled fast-packet message is not reported with the priority / source / destination of its own frames' identifier",
                  lambda m: {"kind": "fast_header", "prio1": m.eval(p1, True).as_long(), "prio2": m.eval(p2, True).as_long(), "src": m.eval(sv, True).as_long(),
                             "seq1": m.eval(s1, True).as_long(), "seq2": m.eval(s2, True).as_long()})
    except Unsupported as e:
        rep.inconc("fast-packet header: %s" % e)

    rep.coverage.update(obligations=obligations, discharged=discharged, exhaustive=True,
                        checker_cmd="./check C05 --tier thorough   (re-decides every obligation; thorough adds cvc5)",
                        trusted_base=["CPython executing the instrumented source", "vf.proxies operator semantics",
                                      "z3 QF_BV"],
                        explanation="finite domain fully covered symbolically")
    rep.assumptions = ["0 <= priority < 8, 0 <= src,dst < 256, 0 <= pgn < 2^18 (the property's quantifier)",
                       "PDU1 PGN numbers have PS byte 0 (canonical form)"]
    return rep.finish(replay)


def _model_int(ex, p, v):
    r, m = ex.model_for(*p.pc)
    return m.eval(v, True).as_long() if m is not None else None


def _m4(ex, p, pg, sr, ds, pr):
    r, m = ex.model_for(*p.pc)
    if m is None:
        return {}
    return {k: m.eval(v, True).as_long() for k, v in (("pgn", pg), ("src", sr), ("dst", ds), ("prio", pr))}


# ------------------------------------------------------------------ replay on the plain code
def replay(r):
    from .plain import plain
    N = plain()
    Dec, Enc = N.decoder.NMEA2000Decoder, N.encoder.NMEA2000Encoder
    k = r["kind"]
    if k == "fast_header":
        from .c03 import pick_fast_pgns
        from .db import db as _db
        fpgn = pick_fast_pgns(_db())[0]
        dec = Dec()
        calls = []
        dec._call_decode_function = lambda pgn_, pr_, s_, d_, ts_, dat, iso, raw: calls.append((pgn_, pr_, s_, d_)) or "MSG"

        def eb(prio, seq, idx, body):
            fid = (prio << 26) | ((fpgn if ((fpgn >> 8) & 0xFF) >= 240 else (fpgn | 255)) << 8) | r["src"]
            fr = bytes([(seq << 5) | idx]) + (bytes([13]) if idx == 0 else b"") + bytes(body)
            return bytes([0x80 | len(fr)]) + fid.to_bytes(4, "big") + fr + bytes(8 - len(fr))
        try:
            dec.decode_tcp(eb(r["prio1"], r["seq1"], 0, range(6)))
            dec.decode_tcp(eb(r["prio2"], r["seq2"], 0, range(6)))
            dec.decode_tcp(eb(r["prio2"], r["seq2"], 1, range(6, 13)))
        except Exception as e:
            return True, "raised %r" % (e,)
        return calls != [(fpgn, r["prio2"], r["src"], 255)], "reported (pgn, prio, src, dst) %r, identifier says %r" % (calls, (fpgn, r["prio2"], r["src"], 255))
    if k in ("parse_build", "parse_rule"):
        fid = r["fid"]
        pgn, src, dst, prio = Dec._extract_header(fid)
        pf = (fid >> 16) & 0xFF
        exp = ((fid >> 8) & 0x3FF00, fid & 0xFF, (fid >> 8) & 0xFF, fid >> 26) if pf < 240 else \
              ((fid >> 8) & 0x3FFFF, fid & 0xFF, 255, fid >> 26)
        back = Enc._build_header(pgn, src, dst, prio)
        bad = back != fid or (pgn, src, dst, prio) != exp
        return bad, "fid=%#x parsed=%r expected=%r rebuilt=%#x" % (fid, (pgn, src, dst, prio), exp, back)
    if k == "build_parse":
        pgn, src, dst, prio = r["pgn"], r["src"], r["dst"], r["prio"]
        fid = Enc._build_header(pgn, src, dst, prio)
        got = Dec._extract_header(fid)
        exp = (pgn, src, dst if ((pgn >> 8) & 0xFF) < 240 else 255, prio)
        return got != exp or not (0 <= fid < 1 << 29), "input=%r fid=%#x parsed=%r" % (exp, fid, got)
    if k == "wire":
        from . import wire
        return wire.replay_header(N, r)
    return None, "unknown replay kind"
