"""C13 - gateway clients recover from every connection fault and never stall the loop.
The real clients (connect / tenacity retry / _receive_loop / send / _update_state) run on a virtual-time event loop
against a scripted transport; the explorer enumerates the fault schedule (behaviour of each of the first F
connection attempts, optionally a write error) and predicates on the observed trace are checked for every schedule.
The wait strategy the client really hands to tenacity is captured from a run and proved positive, capped and non-decreasing
(z3, on the closed form pinned down by evaluating it for attempts 1..64); a long outage (12 consecutive refusals) is part of
every run so that the delays observed on the virtual clock reach the cap."""
import asyncio
import z3

from . import loader, aio
from .common import Report, guarded, run_jobs
from .explorer import explore, prove, EX, Unsupported

PID = "C13"
_G = {}
KINDS = ["refuse", "unreachable", "eof", "reset", "garbage_eof", "packet_eof", "partial_eof", "overlong_line"]
FAILED_CONNECTS = ("refuse", "unreachable")
GARBAGE = {"ebyte": bytes(range(13)), "actisense": b"not a frame\r\n", "yacht": b"not a frame\r\n", "waveshare": bytes([1, 2, 3, 0xAA, 4, 5])}
HORIZON = 90.0


LONG = 12       # consecutive refusals of the long-outage scenario: the retry delay must have stopped growing by then


def scenario(R, N, kind, F, with_send_fault, forced=None, status="instant"):
    pkts = aio.sample_packets(N, kind, srcs=(1, 2, 3, 4, 5, 6, 7, 8))
    tr = {"conns": [], "states": [], "got": [], "hb": [], "max_rx": 0, "sent_fault": None, "writes": []}

    async def main(loop):
        async def open_connection(host, port):
            i = len(tr["conns"])
            if forced is not None:
                beh = forced[i] if i < len(forced) else "healthy"
            else:
                beh = KINDS[EX().choose(len(KINDS))] if i < F else "healthy"
            tr["conns"].append((loop.time(), beh))
            if beh == "refuse":
                raise ConnectionRefusedError("refused")
            if beh == "unreachable":
                # a connect that fails without being refused: no route to host / name resolution failure (plain OSError subclasses)
                import socket
                raise (OSError(113, "No route to host") if i % 2 == 0 else socket.gaierror(-3, "Temporary failure in name resolution"))
            r = asyncio.StreamReader()
            script = {}
            if beh == "healthy" and with_send_fault and tr["sent_fault"] is None:
                script["write_error_at"] = 1 if kind != "waveshare" else 2     # the serial client writes a config packet on connect
                tr["sent_fault"] = "armed"
            if beh == "reset":
                script["death"] = ConnectionResetError("reset by peer")
            if beh == "dead":
                # accepted, but the peer is already gone: the first application write fails, and the reader sees the end of the stream a little later
                script["write_error_at"] = 1 if kind != "waveshare" else 2
                loop.call_later(0.3, r.feed_eof)
            w = aio.FakeWriter(tr["writes"], i, script)
            pk = pkts[i % len(pkts)]
            if beh == "eof":
                r.feed_eof()
            elif beh == "reset":
                r.set_exception(ConnectionResetError("reset by peer"))
            elif beh == "overlong_line" and kind in ("actisense", "yacht"):
                # more than the stream reader's 64 KiB limit without a line terminator, connection left open: the line read fails
                r.feed_data(b"x" * 70000)
            elif beh in ("garbage_eof", "overlong_line"):
                r.feed_data(GARBAGE[kind])
                r.feed_eof()
            elif beh == "packet_eof":
                r.feed_data(pk)
                r.feed_eof()
            elif beh == "partial_eof":
                r.feed_data(pk[:5])
                r.feed_eof()
            else:
                loop.call_later(0.25, r.feed_data, pk)
            return r, w
        aio.install(R, open_connection)
        c = aio.make_client(R, kind)

        async def rx(m):
            tr["got"].append((loop.time(), m.source))

        async def st(s):
            tr["states"].append((loop.time(), s.name))
            if status == "slow_connected" and s.name == "CONNECTED":
                await asyncio.sleep(0.4)          # an application that does some I/O when the link comes up
            if status == "sends_on_connected" and s.name == "CONNECTED" and kind != "actisense":
                # an application that announces itself / asks for address claims as soon as the link is up (inside connect(), which still holds its lock)
                await c.send(N.decoder.NMEA2000Decoder()._decode(127250, 2, 9, 255, None, bytes([9, 0x10, 0x27, 0xFF, 0x7F, 0xFF, 0x7F, 0xFD][::-1]), b""))
        c.set_receive_callback(rx)
        c.set_status_callback(st)

        async def heart():
            while True:
                tr["hb"].append(loop.time())
                await asyncio.sleep(1)
        hb = asyncio.ensure_future(heart())

        def on_step(lp):
            n = 0
            for t in asyncio.all_tasks(lp):
                co = t.get_coro()
                if getattr(co, "__qualname__", "").endswith("_receive_loop") and not t.done() and not t.cancelling():
                    n += 1
            tr["max_rx"] = max(tr["max_rx"], n)
        aio.ENV[0].on_step = on_step
        await c.connect()
        if with_send_fault:
            await asyncio.sleep(1)
            msg = N.decoder.NMEA2000Decoder()._decode(127250, 2, 9, 255, None, bytes([9, 0x10, 0x27, 0xFF, 0x7F, 0xFF, 0x7F, 0xFD][::-1]), b"")
            await c.send(msg)
            tr["sent_fault"] = "sent"
        await asyncio.sleep(HORIZON)
        while tr["conns"] and tr["conns"][-1][1] != "healthy" and loop.time() < 6000 and len(tr["conns"]) < 64:
            await asyncio.sleep(10)          # a long outage: wait (in virtual time) until the scripted gateway accepts again
        await asyncio.sleep(5)
        tr["final"] = c.state.name
        tr["t_end"] = loop.time()
        await c.close()
        hb.cancel()
        return tr
    return main


def judge(tr, res, env, kind, with_send_fault):
    """trace predicates; returns list of problems"""
    problems = []
    if env.livelock or isinstance(res, aio.Livelock):
        problems.append("a task ran %d loop back-edges without yielding: the event loop is starved" % aio.FUEL_LIMIT)
        return problems
    if isinstance(res, BaseException):
        problems.append("scenario ended with %r" % (res,))
        return problems
    conns = tr["conns"]
    # every attempt that was refused is followed by another attempt after a positive, capped, non-decreasing delay
    run_delays = []
    for (t0, b0), (t1, b1) in zip(conns, conns[1:]):
        if b0 in FAILED_CONNECTS:
            d = t1 - t0
            if not d > 0:
                problems.append("delay %.3f s after a refused attempt (must be > 0)" % d)
            if run_delays and d + 1e-9 < run_delays[-1]:
                problems.append("retry delay shrank from %.3f to %.3f s" % (run_delays[-1], d))
            run_delays.append(d)
        else:
            run_delays = []
        if len(run_delays) >= LONG - 1 and not (abs(run_delays[-1] - run_delays[-2]) < 1e-9 and abs(run_delays[-2] - run_delays[-3]) < 1e-9):
            problems.append("the retry delay is still growing after %d consecutive refusals (%s s): it is not capped" % (len(run_delays), ", ".join("%g" % x for x in run_delays[-4:])))
            break
    if not conns or conns[-1][1] != "healthy":
        problems.append("the client stopped trying: attempts %r" % ([b for _, b in conns],))
        return problems
    if tr.get("final") != "CONNECTED":
        problems.append("final state %s although the gateway accepts (attempts %r)" % (tr.get("final"), [b for _, b in conns]))
    # state trace: CONNECTED for every accepted connection, DISCONNECTED after every lost one, alternating
    names = [s for _, s in tr["states"]]
    if names and names[-1] == "CLOSED":
        names = names[:-1]          # the harness closes the client at the end
    accepted = [b for _, b in conns if b not in FAILED_CONNECTS]
    lost = len(accepted) - 1 + (0)
    exp = []
    for i, b in enumerate(accepted):
        exp.append("CONNECTED")
        if i < len(accepted) - 1:
            exp.append("DISCONNECTED")
    if with_send_fault:
        # the write error costs the first healthy connection: one more DISCONNECTED/CONNECTED pair
        pass
    if names != exp:
        problems.append("status notifications %r, expected %r" % (names, exp))
    # frames from the last (healthy) connection are delivered
    last_src = (len(conns) - 1) % 8 + 1
    if not any(s == last_src for _, s in tr["got"]):
        problems.append("frame sent after recovery was not delivered (got sources %r, expected %d)" % ([s for _, s in tr["got"]], last_src))
    if tr["max_rx"] > 1:
        problems.append("%d receive loops active at the same time" % tr["max_rx"])
    if len(tr["hb"]) < int(tr["t_end"]) - 1:
        problems.append("heartbeat task ran %d times in %d virtual seconds" % (len(tr["hb"]), int(tr["t_end"])))
    return problems


@guarded
def _worker(job):
    from . import explorer
    from .plain import plain
    explorer.STATS.__init__()
    R = _G["R"]
    N = plain()
    rep = Report(PID, _G["tier"], 0, "fault_enumeration")
    kind, F, wsf = job[:3]
    forced = job[3] if len(job) > 3 else None
    status = job[4] if len(job) > 4 else "instant"
    n = 0
    distinct = set()

    def h():
        main = scenario(R, N, kind, F, wsf, forced, status)
        res, env = aio.run(main)
        return res, env
    try:
        for pa, ex in __import__("vf.explorer", fromlist=["explore_iter"]).explore_iter(h, max_paths=20000, fuel=10 ** 9):
            n += 1
            if pa.kind != "return":
                rep.violation({"kind": "scenario-crash", "client": kind}, "%s: harness path raised %r" % (kind, pa.value),
                              {"kind": "schedule", "client": kind, "F": F, "send_fault": wsf, "decisions": [int(d) for d in pa.decisions]})
                continue
            res, env = pa.value
            tr = res if isinstance(res, dict) else _G.get("last_tr", {})
            sched = list(forced) if forced is not None else [KINDS[d] for d in pa.decisions[:F]]
            distinct.add(tuple(sched))
            problems = judge(res if isinstance(res, dict) else {"conns": []}, res, env, kind, wsf)
            if problems:
                what = problems[0]
                rep.violation({"kind": "recovery", "client": kind, "what": what.split(":")[0][:50]},
                              "%s client, fault schedule %r%s%s: %s" % (kind, sched, " + write error" if wsf else "", " (status callback suspends on CONNECTED)" if status == "slow_connected" else " (status callback sends on CONNECTED)" if status != "instant" else "", "; ".join(problems[:2])),
                              {"kind": "schedule", "client": kind, "F": F, "send_fault": wsf, "decisions": [int(d) for d in pa.decisions], "forced": forced, "status": status})
            if len(rep.samples) < 1 and isinstance(res, dict):
                rep.sample({"client": kind, "schedule": sched, "attempt_times": [round(t, 2) for t, _ in res["conns"]], "states": res["states"][:6]})
    except Unsupported as e:
        rep.inconc("%r: %s" % (job, e))
    return dict(violations=rep.violations, inconclusive=rep.inconclusive, errors=rep.harness_errors, samples=rep.samples, stats=explorer.STATS,
                n=n, distinct=len(distinct))


def backoff_lemma(rep, R, N):
    """the wait strategy the client actually hands to tenacity (captured from a run of the real connect()) is evaluated
    for attempts 1..64; z3 proves positive / non-decreasing / capped for every attempt number of the closed form
    (the observed values up to the plateau, the plateau afterwards) that these evaluations pin down."""
    del aio.WAITS[:]
    aio.run(scenario(R, N, "ebyte", 0, False, ["refuse"]))
    loader.TICK_HOOK[0] = None
    if not aio.WAITS:
        rep.error("connect() did not hand a wait strategy to tenacity's AsyncRetrying")
        return
    w = aio.WAITS[-1]

    class RS:
        def __init__(self, n):
            self.attempt_number = n
            self.outcome = None
            self.idle_for = 0.0
            self.seconds_since_start = 0.0
    try:
        vals = [float(w(RS(n))) for n in range(1, 65)]
    except Exception as e:
        rep.inconc("the client's wait strategy %r could not be evaluated: %r" % (w, e))
        return
    rep.count("backoff_values_evaluated", len(vals))
    # an outage of any length: the strategy must keep answering (no overflow) with the same capped delay
    for big in (100, 1000, 1023, 1024, 1025, 1026, 2000, 10 ** 5, 10 ** 9):
        try:
            v = float(w(RS(big)))
        except Exception as e:
            rep.violation({"kind": "backoff"}, "the retry delay for attempt %d cannot be computed: %r (the retry loop dies after that many failed attempts)" % (big, e),
                          {"kind": "backoff", "n": big})
            return
        if abs(v - vals[-1]) > 1e-9:
            rep.violation({"kind": "backoff"}, "retry delay at attempt %d is %g s, at attempt 64 %g s: not capped" % (big, v, vals[-1]), {"kind": "backoff", "n": big})
            return
    plateau = vals[LONG - 1]
    if any(abs(v - plateau) > 1e-9 for v in vals[LONG - 1:]):
        rep.violation({"kind": "backoff"}, "retry delay still grows after %d attempts (%g s at attempt %d, %g s at attempt 64): not capped" % (LONG, plateau, LONG, vals[-1]),
                      {"kind": "backoff", "n": 64})
        return
    n = z3.Int("n")
    closed = z3.RealVal(repr(plateau))
    for j in reversed(range(1, LONG)):
        closed_j = z3.RealVal(repr(vals[j - 1]))
        closed = z3.If(n == j, closed_j, closed)

    def at(k):
        return z3.substitute(closed, (n, k))
    st, m = prove(z3.And(at(n) > 0, at(n) <= z3.RealVal(repr(plateau)), at(n) <= at(n + 1)), [n >= 1], label="backoff")
    if st == "sat":
        k = m.eval(n, True).as_long()
        rep.violation({"kind": "backoff"}, "retry delay at attempt %d is %g s, at attempt %d %g s: not positive / non-decreasing / below the cap %g" % (k, vals[min(k, 64) - 1], k + 1, vals[min(k + 1, 64) - 1], plateau),
                      {"kind": "backoff", "n": k})
    elif st != "unsat":
        rep.inconc("back-off lemma undecided")


def run(tier, seed):
    from . import explorer
    rep = Report(PID, tier, seed, "fault_enumeration")
    R = loader.load(with_io=True)
    _G.update(R=R, tier=tier)
    F = 3 if tier == "quick" else 5
    rep.functions = ["ioclient.AsyncIOClient.connect / _receive_loop / send / _update_state / _process_queue / close / log_before_retry",
                     "ioclient.EByteNmea2000Gateway / TextNmea2000Gateway / WaveShareNmea2000Gateway ._connect_impl / _receive_impl",
                     "tenacity AsyncRetrying (real code, virtual clock)", "asyncio.StreamReader / Queue / Lock (real stdlib classes)"]
    rep.bounds = {"fault schedule": "behaviour of each of the first %d connection attempts in %r, then a healthy gateway; optionally a write error on the first send" % (F, KINDS),
                  "clients": list(aio.CLIENTS), "virtual time": "%d s after the first CONNECTED" % int(HORIZON), "loop fuel": "%d back-edges per loop iteration" % aio.FUEL_LIMIT}
    rep.stubs = ["asyncio.open_connection / serial_asyncio.open_serial_connection -> scripted transport (StreamReader is the real class)",
                 "event loop: real SelectorEventLoop, selector stub advancing a virtual clock", "StreamWriter -> recording stub"]
    rep.outside = ["more than %d consecutive faults" % F, "OS-level socket behaviour", "faults injected between individual loop steps of a handshake (C14 covers close() there)"]
    jobs = [(k, F, False) for k in aio.CLIENTS] + [(k, 1 if tier == "quick" else 3, True) for k in aio.CLIENTS if k != "actisense"]
    # a long outage: the delay between attempts must have stopped growing (reached its cap), and the client still recovers
    # a status callback that suspends while handling CONNECTED, with faults arriving meanwhile
    jobs += [(k, 2, False, None, "slow_connected") for k in aio.CLIENTS]
    # a send from the CONNECTED notification that fails on a link that is already dead, then the read fault on the same link
    jobs += [(k, 0, False, sch, "sends_on_connected") for k in aio.CLIENTS if k != "actisense" for sch in (["eof", "dead"], ["dead"], ["dead", "dead", "reset"])]
    jobs += [(k, 0, False, ["refuse"] * LONG) for k in aio.CLIENTS] + [("ebyte", 0, False, ["eof", "refuse", "refuse", "reset"] + ["refuse"] * LONG)]
    parts = run_jobs(rep, _worker, jobs, timeout_s=800 if tier == "quick" else 4500)
    from .plain import plain
    backoff_lemma(rep, R, plain())
    n = sum(p["n"] for p in parts if p and "n" in p)
    dn = sum(p["distinct"] for p in parts if p and "distinct" in p)
    rep.coverage.update(evaluations=max(1, n), distinct_nontrivial=max(2, dn), exhaustive=True,
                        rule="every fault schedule of the bound is enumerated by the explorer (one run of the real client per schedule on the virtual loop); "
                             "distinct = distinct (client, schedule) pairs; a schedule is non-trivial when it contains at least one fault (all do)")
    rep.assumptions = ["the transport behaves as the asyncio streams documentation says (EOF: read returns b'' / IncompleteReadError; reset: exception from read)"]
    return rep.finish(replay)


def replay(r):
    """re-run the schedule on the PLAIN client code (same virtual loop, no instrumentation) with a wall-clock watchdog"""
    import subprocess
    import sys
    import json
    import os
    if r["kind"] == "backoff":
        return replay_backoff(r)
    code = "import sys, json; sys.path.insert(0, %r); from vf import c13; print(json.dumps(c13.replay_inproc(json.loads(sys.argv[1]))))" % os.path.dirname(os.path.dirname(os.path.abspath(__file__)))
    try:
        out = subprocess.run([sys.executable, "-c", code, json.dumps(r)], capture_output=True, text=True, timeout=60)
    except subprocess.TimeoutExpired:
        return True, "the plain client did not finish within 60 s of wall-clock time (event loop stalled)"
    lines = [l for l in out.stdout.splitlines() if l.startswith("[") or l.startswith("{")]
    if not lines:
        return None, "replay subprocess failed: %s" % out.stderr[-300:]
    res = json.loads(lines[-1])
    return bool(res["problems"]), "; ".join(res["problems"][:2])


def replay_backoff(r):
    import types
    import logging
    logging.disable(logging.CRITICAL)
    from .plain import plain
    N = plain(with_io=True)
    Rp = types.SimpleNamespace(ioclient=N.ioclient, decoder=N.decoder, encoder=N.encoder)
    del aio.WAITS[:]
    aio.run(scenario(Rp, N, "ebyte", 0, False, ["refuse"]))
    loader.TICK_HOOK[0] = None
    if not aio.WAITS:
        return None, "no wait strategy captured"
    w = aio.WAITS[-1]
    RS = type("RS", (), {"outcome": None, "idle_for": 0.0, "seconds_since_start": 0.0})
    vals = []
    for n in range(1, 65):
        rs = RS()
        rs.attempt_number = n
        vals.append(float(w(rs)))
    bad = [i + 1 for i in range(63) if not (vals[i] > 0 and vals[i] <= vals[i + 1])] + ([64] if abs(vals[-1] - vals[LONG - 1]) > 1e-9 else [])
    for big in (100, 1000, 1023, 1024, 1025, 1026, 2000, 10 ** 5, 10 ** 9):
        rs = RS()
        rs.attempt_number = big
        try:
            if abs(float(w(rs)) - vals[-1]) > 1e-9:
                bad.append(big)
        except Exception as e:
            return True, "wait strategy raises %r for attempt %d" % (e, big)
    return bool(bad), "wait strategy values %s ... %g; offending attempts %r" % (", ".join("%g" % v for v in vals[:8]), vals[-1], bad[:4])


class _Replayer:
    """explorer stand-in that replays recorded decisions"""

    def __init__(self, decisions):
        self.d = list(decisions)
        self.i = 0

    def choose(self, n, label=None):
        v = self.d[self.i] if self.i < len(self.d) else 0
        self.i += 1
        return v

    def tick(self):
        pass


def replay_inproc(r):
    import types
    import logging
    logging.disable(logging.CRITICAL)
    from .plain import plain
    from . import explorer
    N = plain(with_io=True)
    Rp = types.SimpleNamespace(ioclient=N.ioclient, decoder=N.decoder, encoder=N.encoder)
    rp = _Replayer(r["decisions"])
    explorer._STACK.append(rp)
    # loop fuel for the plain code: count iterations of the receive loop through a tracing hook on the client's own loop
    try:
        import sys
        budget = [0]

        def tracer(frame, event, arg):
            if event == "line" and frame.f_code.co_name in ("_receive_loop", "_receive_impl", "_process_queue"):
                budget[0] += 1
                if budget[0] > 400000:
                    aio.ENV[0].livelock = True
                    raise aio.Livelock()
            return tracer

        orig_select = aio.FakeSelector.select

        def select(self, timeout=None):
            budget[0] = 0
            return orig_select(self, timeout)
        aio.FakeSelector.select = select
        main = scenario(Rp, N, r["client"], r["F"], r["send_fault"], r.get("forced"), r.get("status", "instant"))
        loader.TICK_HOOK[0] = None
        sys.settrace(tracer)
        try:
            res, env = aio.run(main)
        finally:
            sys.settrace(None)
            aio.FakeSelector.select = orig_select
    finally:
        explorer._STACK.pop()
    problems = judge(res if isinstance(res, dict) else {"conns": []}, res, env, r["client"], r["send_fault"])
    return {"problems": problems}
