"""Layer-2 arithmetic (DESIGN 2.4): the same real code run over mathematical integers and a rounding-error
model of binary64.  Every float operation returns exact*(1+e) with a fresh |e| <= 2^-53 (e = 0 when the
operation is exact by construction); round()/int() return fresh integers constrained by the IEEE contract.
Every real execution is a model of these constraints, so `unsat` is a proof; `sat` is only a candidate."""
from fractions import Fraction
import z3
from .explorer import EX, Unsupported
from .proxies import SymBool, truth, register_symbolic, sym_not
from . import proxies as P

U = Fraction(1, 2 ** 53)


def q(x):
    """exact rational of a Python number (binary64 literals are taken at their exact value)"""
    if isinstance(x, bool):
        return Fraction(int(x))
    if isinstance(x, (int, Fraction)):
        return Fraction(x)
    if isinstance(x, float):
        return Fraction(x)
    raise Unsupported("q(%r)" % type(x))


def rv(fr):
    fr = Fraction(fr)
    return z3.RealVal("%d/%d" % (fr.numerator, fr.denominator))


class Ctx:
    """collects side constraints (error bounds, rounding contracts) of one real-model run"""
    cur = None

    def __init__(self):
        self.cons = []
        self.n = 0
        self._memo = {}

    def fresh_real(self, tag):
        self.n += 1
        return z3.Real("%s%d" % (tag, self.n))

    def fresh_int(self, tag):
        self.n += 1
        return z3.Int("%s%d" % (tag, self.n))

    def memo(self, tag, term, mk):
        """floating point is deterministic: the same operation on the same exact operand gets the same fresh
        variables on every path (z3 hash-conses terms, ids are stable while the term is kept alive here)"""
        k = (tag, term.get_id())
        hit = self._memo.get(k)
        if hit is None:
            hit = (mk(), term)
            self._memo[k] = hit
        return hit[0]

    def err(self, term=None):
        def mk():
            e = self.fresh_real("e")
            self.cons.append(z3.And(e >= rv(-U), e <= rv(U)))
            return e
        return mk() if term is None else self.memo("err", term, mk)


def ctx():
    if Ctx.cur is None:
        raise Unsupported("real-model operation outside a real-model context")
    return Ctx.cur


class SymIntZ:
    """mathematical integer (z3 Int); `bits` = (lo, hi) when the value is known to occupy only bit positions
    lo..hi-1 (results of `& mask` and `<<`), which makes `|` with disjoint operands an addition"""
    __slots__ = ("t", "bits", "cbase")

    def __init__(self, t, bits=None, cbase=0):
        self.t = t
        self.bits = bits
        self.cbase = cbase      # concrete bits already OR-ed in (outside `bits`)

    def __or__(self, o):
        if self.bits is None:
            raise Unsupported("| on a mathematical integer of unknown bit range")
        lo, hi = self.bits
        if isinstance(o, int) and not isinstance(o, bool) and o >= 0:
            if (o >> lo) & ((1 << (hi - lo)) - 1):
                raise Unsupported("| with overlapping constant bits")
            nb = self.cbase | o
            return SymIntZ(self.t + (nb - self.cbase), self.bits, nb)
        if isinstance(o, SymIntZ) and o.bits is not None and (o.bits[1] <= lo or o.bits[0] >= hi) \
                and self.cbase == 0 and o.cbase == 0:
            return SymIntZ(self.t + o.t, (min(lo, o.bits[0]), max(hi, o.bits[1])))
        raise Unsupported("| of overlapping / unknown bit ranges on mathematical integers")

    __ror__ = __or__

    def to_bytes(self, length=1, byteorder="big", *, signed=False):
        return ZBytes(self, length, byteorder)

    def bit_length(self):
        c = ctx()

        def mk():
            k = c.fresh_int("bl")
            c.cons.append(k >= 0)
            return k
        return SymIntZ(c.memo("bitlen", self.t, mk))

    @staticmethod
    def lift(x):
        if isinstance(x, SymIntZ):
            return x
        if isinstance(x, bool):
            x = int(x)
        if isinstance(x, int):
            return SymIntZ(z3.IntVal(x))
        return None

    def _bin(self, o, f):
        o2 = SymIntZ.lift(o)
        if o2 is None:
            return NotImplemented
        return SymIntZ(f(self.t, o2.t))

    def __add__(self, o):
        if isinstance(o, (float, SymReal)):
            return NotImplemented
        return self._bin(o, lambda a, b: a + b)

    __radd__ = __add__

    def __sub__(self, o):
        if isinstance(o, (float, SymReal)):
            return NotImplemented
        return self._bin(o, lambda a, b: a - b)

    def __rsub__(self, o):
        return SymIntZ.lift(o)._bin(self, lambda a, b: a - b)

    def __neg__(self):
        return SymIntZ(-self.t)

    def __mul__(self, o):
        if isinstance(o, float):
            return SymReal.from_int(self) * o
        if isinstance(o, SymReal):
            return NotImplemented
        if isinstance(o, int):
            return SymIntZ(self.t * o)
        raise Unsupported("symbolic * symbolic integer")

    __rmul__ = __mul__

    def __truediv__(self, o):
        return SymReal.from_int(self) / o

    def __floordiv__(self, d):
        if not (isinstance(d, int) and d > 0):
            raise Unsupported("// non-constant")
        return SymIntZ(self.t / d)        # z3 Int division: floor for positive divisors

    def __mod__(self, d):
        if not (isinstance(d, int) and d > 0):
            raise Unsupported("% non-constant")
        return SymIntZ(self.t % d)

    def __lshift__(self, k):
        if not isinstance(k, int):
            raise Unsupported("symbolic shift")
        b = None if self.bits is None else (self.bits[0] + k, self.bits[1] + k)
        return SymIntZ(self.t * (1 << k), b)

    def __rshift__(self, k):
        if not isinstance(k, int):
            raise Unsupported("symbolic shift")
        if k == 0:
            return self
        return SymIntZ(self.t / (1 << k))

    def __and__(self, m):
        if not isinstance(m, int) or m < 0:
            raise Unsupported("& with non-constant")
        if m & (m + 1) == 0:               # 2^n - 1
            if self.bits is not None and self.bits[1] <= m.bit_length() and self.cbase == 0:
                return self                # already known to fit: the mask is the identity
            return SymIntZ(self.t % (m + 1), (0, m.bit_length()))
        if m & (m - 1) == 0:               # single bit 2^n
            return SymIntZ(((self.t / m) % 2) * m)
        raise Unsupported("& with general mask on a mathematical integer")

    __rand__ = __and__

    def _cmp(self, o, f):
        if isinstance(o, float):
            return SymBool(f(z3.ToReal(self.t), rv(q(o))))
        if isinstance(o, SymReal):
            return NotImplemented
        o2 = SymIntZ.lift(o)
        if o2 is None:
            return NotImplemented
        return SymBool(f(self.t, o2.t))

    def __eq__(self, o):
        if o is None:
            return False
        return self._cmp(o, lambda a, b: a == b)

    def __ne__(self, o):
        if o is None:
            return True
        return self._cmp(o, lambda a, b: a != b)

    def __lt__(self, o):
        return self._cmp(o, lambda a, b: a < b)

    def __le__(self, o):
        return self._cmp(o, lambda a, b: a <= b)

    def __gt__(self, o):
        return self._cmp(o, lambda a, b: a > b)

    def __ge__(self, o):
        return self._cmp(o, lambda a, b: a >= b)

    __hash__ = None

    def __bool__(self):
        return bool(self != 0)

    def __round__(self, n=None):
        return self

    def __trunc__(self):
        return self

    def __repr__(self):
        return "SymIntZ(%s)" % self.t


class ZBytes:
    """result of int.to_bytes on a mathematical integer: only the integer and the length are kept"""

    def __init__(self, value, length, byteorder):
        self.value, self.length, self.byteorder = value, length, byteorder

    def __len__(self):
        return self.length if isinstance(self.length, int) else 0


class SymReal:
    """binary64 value in the rounding-error model: t is a z3 Real term"""
    __slots__ = ("t", "exact_int")

    def __init__(self, t, exact_int=False):
        self.t = t
        self.exact_int = exact_int

    @staticmethod
    def from_int(i, bound_bits=None):
        """int -> float: exact below 2^53, otherwise one rounding"""
        c = ctx()
        x = z3.ToReal(i.t)

        def mk():
            r = c.fresh_real("c")
            ab = z3.If(x >= 0, x, -x)
            big = z3.Or(i.t > 2 ** 53, i.t < -(2 ** 53))
            c.cons.append(z3.If(big, z3.And(r - x <= rv(U) * ab, x - r <= rv(U) * ab), r == x))
            return r
        return SymReal(c.memo("i2f", x, mk))

    @staticmethod
    def lift(x):
        if isinstance(x, SymReal):
            return x
        if isinstance(x, SymIntZ):
            return SymReal.from_int(x)
        if isinstance(x, (int, float)) and not isinstance(x, bool):
            return SymReal(rv(q(float(x)) if isinstance(x, int) and abs(x) >= 2 ** 53 else q(x)))
        return None

    def _round(self, exact, pow2=False):
        """one binary64 rounding of the exact real result: relative error <= 2^-53, and monotone w.r.t. the
        integers (every integer of magnitude < 2^53 is representable, so RNE cannot cross one):
        floor(exact) <= result <= floor(exact)+1 whenever |exact| < 2^53"""
        if pow2:
            return SymReal(exact)
        c = ctx()
        exact = z3.simplify(exact)

        def mk():
            # linear form of the relative-error bound: |r - exact| <= 2^-53 * |exact|  (r is a fresh variable)
            r = c.fresh_real("r")
            ab = z3.If(exact >= 0, exact, -exact)
            c.cons.append(z3.And(r - exact <= rv(U) * ab, exact - r <= rv(U) * ab))
            kf = c.fresh_int("f")
            kr = z3.ToReal(kf)
            c.cons.append(z3.And(kr <= exact, exact < kr + 1))
            small = z3.And(exact < rv(2 ** 53), exact > rv(-(2 ** 53)))
            c.cons.append(z3.Implies(small, z3.And(r >= kr, r <= kr + 1)))
            return r
        return SymReal(c.memo("rnd", exact, mk))

    def __mul__(self, o):
        o2 = SymReal.lift(o)
        if o2 is None:
            return NotImplemented
        p2 = isinstance(o, (int, float)) and o != 0 and _is_pow2(o)
        return self._round(self.t * o2.t, p2)

    __rmul__ = __mul__

    def __truediv__(self, o):
        o2 = SymReal.lift(o)
        if o2 is None:
            return NotImplemented
        if not isinstance(o, (int, float)):
            if bool(SymBool(o2.t == 0)):
                raise ZeroDivisionError("float division by zero")
        elif o == 0:
            raise ZeroDivisionError("float division by zero")
        p2 = isinstance(o, (int, float)) and _is_pow2(o)
        return self._round(self.t / o2.t, p2)

    def __rtruediv__(self, o):
        return SymReal.lift(o).__truediv__(self)

    def __add__(self, o):
        o2 = SymReal.lift(o)
        if o2 is None:
            return NotImplemented
        return self._round(self.t + o2.t)

    __radd__ = __add__

    def __sub__(self, o):
        o2 = SymReal.lift(o)
        if o2 is None:
            return NotImplemented
        return self._round(self.t - o2.t)

    def __rsub__(self, o):
        return SymReal.lift(o).__sub__(self)

    def __neg__(self):
        return SymReal(-self.t)

    def _cmp(self, o, f):
        if isinstance(o, int) and not isinstance(o, bool):
            return SymBool(f(self.t, rv(o)))        # Python compares float with int exactly
        if isinstance(o, SymIntZ):
            return SymBool(f(self.t, z3.ToReal(o.t)))
        o2 = SymReal.lift(o)
        if o2 is None:
            return NotImplemented
        return SymBool(f(self.t, o2.t))

    def __lt__(self, o):
        return self._cmp(o, lambda a, b: a < b)

    def __le__(self, o):
        return self._cmp(o, lambda a, b: a <= b)

    def __gt__(self, o):
        return self._cmp(o, lambda a, b: a > b)

    def __ge__(self, o):
        return self._cmp(o, lambda a, b: a >= b)

    def __eq__(self, o):
        if o is None:
            return False
        return self._cmp(o, lambda a, b: a == b)

    def __ne__(self, o):
        if o is None:
            return True
        return self._cmp(o, lambda a, b: a != b)

    __hash__ = None

    def __round__(self, n=None):
        c = ctx()
        if n is None:
            def mk():
                k = c.fresh_int("k")
                kr = z3.ToReal(k)
                c.cons.append(z3.And(self.t - kr <= rv(Fraction(1, 2)), kr - self.t <= rv(Fraction(1, 2))))
                return k
            return SymIntZ(c.memo("round", self.t, mk))
        # correctly rounded decimal rounding: |round(x,n) - x| <= 0.5*10^-n, plus one binary64 rounding
        r = c.fresh_real("r")
        h = Fraction(1, 2) / Fraction(10) ** n
        c.cons.append(z3.And(r - self.t <= rv(h) + _abs(self.t) * rv(2 * U), self.t - r <= rv(h) + _abs(self.t) * rv(2 * U)))
        return SymReal(r)

    def __trunc__(self):
        c = ctx()

        def mk():
            k = c.fresh_int("t")
            kr = z3.ToReal(k)
            c.cons.append(z3.If(self.t >= 0, z3.And(kr <= self.t, self.t < kr + 1), z3.And(kr >= self.t, self.t > kr - 1)))
            return k
        return SymIntZ(c.memo("trunc", self.t, mk))

    def __repr__(self):
        return "SymReal(%s)" % self.t


def _abs(t):
    return z3.If(t >= 0, t, -t)


def _is_pow2(x):
    fr = Fraction(x)
    if fr <= 0:
        fr = -fr
    if fr == 0:
        return False
    n, d = fr.numerator, fr.denominator
    return (n & (n - 1) == 0) and (d & (d - 1) == 0)


register_symbolic(SymIntZ, SymReal, ZBytes)

# teach the generic helpers about the new proxies
_old_int_call = P._IntNS.__call__


def _int_call(self, x=0, *a):
    if isinstance(x, SymIntZ):
        return x
    if isinstance(x, SymReal):
        return x.__trunc__()
    return _old_int_call(self, x, *a)


P._IntNS.__call__ = _int_call
_old_isinst = P.sx_isinstance


def _sx_isinstance(obj, cls):
    import builtins
    if isinstance(obj, SymIntZ):
        return P._cls_accepts(cls, builtins.int)
    if isinstance(obj, SymReal):
        return P._cls_accepts(cls, builtins.float)
    return _old_isinst(obj, cls)


P.sx_isinstance = _sx_isinstance
_old_ite = P.ite


def _ite(c, a, b):
    if isinstance(a, (SymReal, SymIntZ)) or isinstance(b, (SymReal, SymIntZ)):
        from fractions import Fraction as _Fr
        if isinstance(a, (SymReal, float, _Fr)) or isinstance(b, (SymReal, float, _Fr)):
            a2 = a if isinstance(a, SymReal) else (SymReal(z3.ToReal(a.t)) if isinstance(a, SymIntZ) else SymReal(rv(q(a))))
            b2 = b if isinstance(b, SymReal) else (SymReal(z3.ToReal(b.t)) if isinstance(b, SymIntZ) else SymReal(rv(q(b))))
            return SymReal(z3.If(c, a2.t, b2.t))
        a2, b2 = SymIntZ.lift(a), SymIntZ.lift(b)
        if a2 is None or b2 is None:
            raise Unsupported("cannot merge %r with %r" % (type(a), type(b)))
        return SymIntZ(z3.If(c, a2.t, b2.t))
    return _old_ite(c, a, b)


P.ite = _ite
_old_is = P._sx_is


def _sx_is(a, b):
    if b is None and isinstance(a, (SymIntZ, SymReal)):
        return False
    return _old_is(a, b)


P._sx_is = _sx_is
P._sx_is_not = lambda a, b: sym_not(P._sx_is(a, b))


class real_context:
    def __enter__(self):
        self.old = Ctx.cur
        Ctx.cur = Ctx()
        return Ctx.cur

    def __exit__(self, *a):
        Ctx.cur = self.old
