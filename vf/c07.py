"""C07 - the same CAN frame decodes identically through every input format.
Each of the five real front-ends is run on a symbolic rendering of one symbolic frame (29-bit identifier, 1..8
data bytes): binary formats as symbolic bytes (padding symbolic), text formats as text whose digit characters are
symbolic (any hex digit in either case / any decimal digit, tied to the frame only by their numeric value).
Obligation: what reaches the shared decode path equals the J1939 reading of the frame - hence is the same for all
formats.  Pre-assembled fast-packet input is compared with frame-wise delivery."""
import z3

from . import loader, textsym, wire
from .common import Report, guarded, run_jobs
from .db import db
from .explorer import explore, prove, satisfiable, Unsupported, EX
from .proxies import SymInt, SymBytes, truth
from .c03 import pick_fast_pgns

PID = "C07"
_G = {}
FORMATS = ("ebyte", "usb", "yacht", "actisense", "basic")


def spec(fid):
    """(pgn, prio, src, dst) of a 29-bit identifier by the J1939 PDU1/PDU2 rule, as z3 terms (18/3/8/8 bits)"""
    src = z3.Extract(7, 0, fid)
    prio = z3.Extract(28, 26, fid)
    pf = z3.Extract(23, 16, fid)
    pdu1 = z3.ULT(pf, 0xF0)
    pgn = z3.If(pdu1, z3.Concat(z3.Extract(25, 16, fid), z3.BitVecVal(0, 8)), z3.Extract(25, 8, fid))
    dst = z3.If(pdu1, z3.Extract(15, 8, fid), z3.BitVecVal(255, 8))
    return pgn, prio, src, dst


def sym_hex_token(name, value_bv, ndigits, assumptions):
    chars, val = textsym.hex_digits(name, ndigits, assumptions)
    v = SymInt.lift(val)
    w = max(v.w, value_bv.size() + 1)
    assumptions.append(v.ext(w) == z3.ZeroExt(w - value_bv.size(), value_bv))
    return chars


def sym_dec_token(name, value_bv, ndigits, assumptions):
    chars, val = textsym.dec_digits(name, ndigits, assumptions)
    v = SymInt.lift(val)
    w = max(v.w, value_bv.size() + 1)
    assumptions.append(v.ext(w) == z3.ZeroExt(w - value_bv.size(), value_bv))
    return chars


def render(fmt, fid, data, n, assumptions, variant=0):
    """symbolic input of format fmt carrying the frame (fid, data[0:n])"""
    pgn, prio, src, dst = spec(fid)
    if fmt == "ebyte":
        flags = z3.BitVec("tflags", 4)                       # upper nibble of the type byte: anything
        tb = SymInt(z3.ZeroExt(1, z3.Concat(flags, z3.BitVecVal(n, 4))), 8)
        idb = [SymInt(z3.ZeroExt(1, z3.Extract(8 * i + 7, 8 * i, z3.ZeroExt(3, fid))), 8) for i in (3, 2, 1, 0)]
        pad = [SymInt.var("epad%d" % i, 8) for i in range(8 - n)]
        return SymBytes([tb] + idb + list(data[:n]) + pad)
    if fmt == "usb":
        idb = [SymInt(z3.ZeroExt(1, z3.Extract(8 * i + 7, 8 * i, z3.ZeroExt(3, fid))), 8) for i in (0, 1, 2, 3)]
        body = [SymInt.var("u2", 8), SymInt.var("u3", 8), SymInt.var("u4", 8)] + idb + [n] + list(data[:n]) + \
               [SymInt.var("upad%d" % i, 8) for i in range(8 - n)] + [SymInt.var("ures", 8)]
        s = 0
        for b in body:
            s = s + b
        return SymBytes([0xAA, 0x55] + body + [(SymInt.lift(s) & 0xFF)])
    if fmt == "yacht":
        idc = sym_hex_token("yid", fid, 8, assumptions)
        items = list("00:00:00.000 " if variant == 0 else "23:59:59.999 ") + list("R " if variant == 0 else "T ") + idc
        for i in range(n):
            items += [" "] + sym_hex_token("yb%d" % i, z3.Extract(7, 0, data[i].t), 2, assumptions)
        return textsym.mk(items)
    if fmt == "actisense":
        hdr = z3.Concat(src, dst, z3.ZeroExt(1, prio))          # SSDDP : 20 bits
        items = list("A000000.000 " if variant == 0 else "A173321.107 ") + sym_hex_token("ah", hdr, 5, assumptions) + [" "] + \
            sym_hex_token("ap", pgn, 5, assumptions) + [" "]
        for i in range(n):
            items += sym_hex_token("ab%d" % i, z3.Extract(7, 0, data[i].t), 2, assumptions)
        return textsym.mk(items)
    if fmt == "basic":
        items = list("2020-01-01-00:00:00.000," if variant == 0 else "2020-01-01T00:00:00.000Z,")
        items += sym_dec_token("bp", prio, 1, assumptions) + [","] + sym_dec_token("bg", pgn, 6, assumptions) + [","] + \
            sym_dec_token("bs", src, 3, assumptions) + [","] + sym_dec_token("bd", dst, 3, assumptions) + [","] + [str(n)]
        for i in range(n):
            items += [","] + sym_hex_token("bb%d" % i, z3.Extract(7, 0, data[i].t), 2, assumptions)
        return textsym.mk(items)
    raise ValueError(fmt)


def call(dec, fmt, inp, combined=False):
    if fmt == "ebyte":
        return dec.decode_tcp(inp)
    if fmt == "usb":
        return dec.decode_usb(inp)
    if fmt == "yacht":
        return dec.decode_yacht_devices_string(inp)
    if fmt == "actisense":
        return dec.decode_actisense_string(inp)
    if fmt == "basic":
        return dec.decode_basic_string(inp, combined) if combined else dec.decode_basic_string(inp)


@guarded
def _worker(job):
    from . import explorer
    explorer.STATS.__init__()
    R = _G["R"]
    rep = Report(PID, _G["tier"], 0, "other")
    fmt, n, variant = job
    fid = z3.BitVec("fid", 29)
    data = [SymInt.var("d%d" % i, 8) for i in range(8)]
    assumptions = []
    inp = render(fmt, fid, data, n, assumptions, variant)
    pgn, prio, src, dst = spec(fid)

    def h():
        dec = R.decoder.NMEA2000Decoder()
        rec = []
        dec._decode = lambda pgn_, prio_, src_, dst_, ts, dat, raw, combined=False: rec.append((pgn_, prio_, src_, dst_, dat, combined))
        call(dec, fmt, inp)
        return rec

    def wit(m):
        conc = inp.concrete(m) if hasattr(inp, "concrete") else inp
        return {"kind": "input", "fmt": fmt, "input": conc.hex() if isinstance(conc, bytes) else conc, "fid": m.eval(fid, True).as_long(),
                "data": bytes(m.eval(data[i].t, True).as_long() & 0xFF for i in range(n)).hex()}
    try:
        paths, ex = explore(h, max_paths=64, assumptions=assumptions)
    except Unsupported as e:
        rep.inconc("%r: %s" % (job, e))
        return dict(violations=[], inconclusive=rep.inconclusive, errors=[], samples=[], stats=explorer.STATS)
    nret = 0
    for pa in paths:
        st0, m0 = satisfiable(z3.And(pa.cond(), *assumptions))
        if st0 != "sat":
            continue
        if pa.kind != "return":
            rep.violation({"kind": "front-end-raises", "fmt": fmt}, "%s front-end raised %r on a well-formed rendering" % (fmt, pa.value), wit(m0))
            continue
        rec = pa.value
        if len(rec) != 1 or len(rec[0][4]) != n:
            rep.violation({"kind": "front-end-shape", "fmt": fmt}, "%s: shared decode path called %d times / with %s data bytes (frame has %d)" %
                          (fmt, len(rec), len(rec[0][4]) if rec else "-", n), wit(m0))
            continue
        nret += 1
        g_pgn, g_prio, g_src, g_dst, g_dat, g_comb = rec[0]

        def eqbv(x, bv):
            x = SymInt.lift(x)
            w = max(x.w, bv.size() + 1)
            return x.ext(w) == z3.ZeroExt(w - bv.size(), bv)
        cl = [eqbv(g_pgn, pgn), eqbv(g_prio, prio), eqbv(g_src, src), eqbv(g_dst, dst)]
        for i in range(n):
            cl.append(truth(SymInt.lift(g_dat[n - 1 - i]) == data[i]))
        st, m = prove(z3.And(*cl), assumptions + pa.pc, label="front-end/%s/%d" % (fmt, n))
        if st == "sat":
            rep.violation({"kind": "front-end-differs", "fmt": fmt}, "%s: the frame handed to the shared decode path is not the frame in the input" % fmt, wit(m))
        elif st == "unknown":
            rep.inconc("%r undecided" % (job,))
        if bool(g_comb) != (fmt == "actisense"):
            rep.violation({"kind": "combined-flag", "fmt": fmt}, "%s: already_combined = %r" % (fmt, g_comb), wit(m0))
    if nret == 0 and not rep.violations:
        rep.error("%r: no returning path (vacuous)" % (job,))
    rep.sample({"format": fmt, "data_bytes": n, "variant": variant, "paths": len(paths), "input": str(type(inp).__name__)})
    return dict(violations=rep.violations, inconclusive=rep.inconclusive, errors=rep.harness_errors, samples=rep.samples[:1], stats=explorer.STATS)


@guarded
def _fast_worker(job):
    """pre-assembled formats vs frame-wise delivery of the same fast-packet payload"""
    from . import explorer
    explorer.STATS.__init__()
    R = _G["R"]
    rep = Report(PID, _G["tier"], 0, "other")
    n, pgnc = job
    S, D_, Pr, seq = z3.BitVec("src", 8), z3.BitVec("dst", 8), z3.BitVec("prio", 3), z3.BitVec("seq", 3)
    pay = [SymInt.var("p%d" % i, 8) for i in range(n)]
    pf = (pgnc >> 8) & 0xFF
    dst_eff = D_ if pf < 240 else z3.BitVecVal(255, 8)
    fidt = z3.Concat(Pr, z3.BitVecVal((pgnc >> 8) & 0x3FF, 10), dst_eff if pf < 240 else z3.BitVecVal(pgnc & 0xFF, 8), S)
    assumptions = []
    # frames (reference framing from the standard / property C03)
    frames = []
    pos = idx = 0
    while True:
        hdr = SymInt(z3.ZeroExt(1, z3.Concat(seq, z3.BitVecVal(idx, 5))), 8)
        body = pay[pos:pos + (6 if idx == 0 else 7)]
        pos += len(body)
        frames.append([hdr] + ([SymInt.lift(n)] if idx == 0 else []) + body)
        idx += 1
        if pos >= n:
            break
    fid = z3.BitVec("fidv", 29)
    assumptions.append(fid == fidt)
    pk = []
    for k, fr in enumerate(frames):
        idb = [SymInt(z3.ZeroExt(1, z3.Extract(8 * i + 7, 8 * i, z3.ZeroExt(3, fid))), 8) for i in (3, 2, 1, 0)]
        pad = [SymInt.var("fp%d_%d" % (k, i), 8) for i in range(8 - len(fr))]
        pk.append(SymBytes([0x80 | len(fr)] + idb + fr + pad))
    # pre-assembled renderings
    a2 = []
    hdr = z3.Concat(S, dst_eff, z3.ZeroExt(1, Pr))
    items = list("A000000.000 ") + sym_hex_token("ah", hdr, 5, a2) + [" "] + list("%05X" % pgnc) + [" "]
    for i in range(n):
        items += sym_hex_token("ab%d" % i, z3.Extract(7, 0, pay[i].t), 2, a2)
    act = textsym.mk(items)
    items = list("2020-01-01-00:00:00.000,") + sym_dec_token("bp", Pr, 1, a2) + [","] + list(str(pgnc)) + [","] + \
        sym_dec_token("bs", S, 3, a2) + [","] + sym_dec_token("bd", dst_eff, 3, a2) + [","] + list(str(n))
    for i in range(n):
        items += [","] + sym_hex_token("bb%d" % i, z3.Extract(7, 0, pay[i].t), 2, a2)
    basic = textsym.mk(items)
    assumptions += a2

    def h():
        out = []
        for mode in ("frames", "actisense", "basic"):
            dec = R.decoder.NMEA2000Decoder()
            calls = []
            dec._call_decode_function = lambda pgn_, pr_, s_, d_, ts_, dat, iso, raw: calls.append((pgn_, pr_, s_, d_, dat)) or "MSG"
            if mode == "frames":
                rets = [dec.decode_tcp(p_) for p_ in pk]
                # the same message once more on the same decoder (an encoder whose 3-bit counter has wrapped sends the
                # same counter again): it must be delivered again, exactly like the pre-assembled formats do
                rets2 = [dec.decode_tcp(p_) for p_ in pk]
            elif mode == "actisense":
                rets = [dec.decode_actisense_string(act)]
                rets2 = [dec.decode_actisense_string(act)]
            else:
                rets = [dec.decode_basic_string(basic, True)]
                rets2 = [dec.decode_basic_string(basic, True)]
            again_ok = len(calls) == 2 and rets2[-1] == "MSG" and all(x is None for x in rets2[:-1])
            out.append((rets, calls[:1], again_ok, calls[1:]))
        # one decoder instance fed through a whole-message format first and a frame-level format afterwards, and the other way
        # round: the format of earlier input must not decide how later input of the same PGN is treated
        mixed_ok = True
        for first in ("actisense", "frames"):
            dec = R.decoder.NMEA2000Decoder()
            calls = []
            dec._call_decode_function = lambda pgn_, pr_, s_, d_, ts_, dat, iso, raw: calls.append((pgn_, pr_, s_, d_, dat)) or "MSG"
            if first == "actisense":
                r1 = [dec.decode_actisense_string(act)]
                r2 = [dec.decode_tcp(p_) for p_ in pk]
            else:
                r1 = [dec.decode_tcp(p_) for p_ in pk]
                r2 = [dec.decode_basic_string(basic, True)]
            ok_ = len(calls) == 2 and r1[-1] == "MSG" and r2[-1] == "MSG" and all(x is None for x in r1[:-1] + r2[:-1]) and len(calls[0][4]) == n and len(calls[1][4]) == n
            mixed_ok = mixed_ok and ok_
        out.append(("MIXED", mixed_ok))
        return out
    try:
        paths, ex = explore(h, max_paths=64, assumptions=assumptions)
    except Unsupported as e:
        rep.inconc("fast %r: %s" % (job, e))
        return dict(violations=[], inconclusive=rep.inconclusive, errors=[], samples=[], stats=explorer.STATS)
    for pa in paths:
        st0, m0 = satisfiable(z3.And(pa.cond(), *assumptions))
        if st0 != "sat":
            continue

        def wit(m):
            return {"kind": "fast", "n": n, "pgn": pgnc, "src": m.eval(S, True).as_long(), "dst": m.eval(D_, True).as_long(), "prio": m.eval(Pr, True).as_long(),
                    "seq": m.eval(seq, True).as_long(), "payload": bytes(m.eval(p_.t, True).as_long() & 0xFF for p_ in pay).hex()}
        if pa.kind != "return":
            rep.violation({"kind": "fast-raises"}, "raised %r" % (pa.value,), wit(m0))
            continue
        out = pa.value
        mixed = out[-1]
        out = out[:-1]
        if not mixed[1]:
            rep.violation({"kind": "fast-mixed-formats"}, "one decoder fed the same fast-packet PGN pre-assembled and frame by frame (either order) does not deliver both messages", wit(m0))
            continue
        ok = all(len(c) == 1 and r[-1] == "MSG" and all(x is None for x in r[:-1]) and len(c[0][4]) == n for r, c, ag, c2 in out)
        if not ok:
            rep.violation({"kind": "fast-delivery"}, "frame-wise / pre-assembled delivery shape differs: %r" % ([(len(c), [x is not None for x in r]) for r, c, ag, c2 in out],), wit(m0))
            continue
        if not all(ag for r, c, ag, c2 in out):
            rep.violation({"kind": "fast-second-message"}, "the same fast-packet message sent a second time is not delivered identically by all formats: %r" % ([ag for r, c, ag, c2 in out],), wit(m0))
            continue
        ref = out[0][1][0]
        cl = []
        for r, c, ag, c2 in out[1:]:
            got = c[0]
            cl += [truth(SymInt.lift(got[k]) == SymInt.lift(ref[k])) for k in range(4)]
            cl += [truth(SymInt.lift(got[4][k]) == SymInt.lift(ref[4][k])) for k in range(n)]
        cl += [truth(SymInt.lift(ref[4][n - 1 - k]) == pay[k]) for k in range(n)]
        st, m = prove(z3.And(*cl), assumptions + pa.pc, label="fast-preassembled")
        if st == "sat":
            rep.violation({"kind": "fast-differs"}, "pre-assembled input and frame-wise delivery hand different data to the PGN decoder", wit(m))
        elif st == "unknown":
            rep.inconc("fast %r undecided" % (job,))
    rep.sample({"fast_payload_bytes": n, "pgn": pgnc, "paths": len(paths)})
    return dict(violations=rep.violations, inconclusive=rep.inconclusive, errors=rep.harness_errors, samples=rep.samples[:1], stats=explorer.STATS)


@guarded
def _interleave_worker(job):
    """two fast-packet messages of one addressed PGN from one source to two destinations, their frames interleaved through a
    frame-level format: each is delivered like its pre-assembled rendering (own payload, own destination)"""
    from . import explorer
    explorer.STATS.__init__()
    R = _G["R"]
    rep = Report(PID, _G["tier"], 0, "other")
    n, pgnc, order = job
    S, Pr = z3.BitVec("src", 8), z3.BitVec("prio", 3)
    Ds = [z3.BitVec("dst%d" % k, 8) for k in range(2)]
    seqs = [z3.BitVec("seq%d" % k, 3) for k in range(2)]
    pays = [[SymInt.var("m%d_%d" % (k, i), 8) for i in range(n)] for k in range(2)]
    assumptions = [Ds[0] != Ds[1]]
    pk = [[], []]
    for k in range(2):
        fid = z3.Concat(Pr, z3.BitVecVal((pgnc >> 8) & 0x3FF, 10), Ds[k], S)
        pos = idx = 0
        while True:
            hdr = SymInt(z3.ZeroExt(1, z3.Concat(seqs[k], z3.BitVecVal(idx, 5))), 8)
            body = pays[k][pos:pos + (6 if idx == 0 else 7)]
            pos += len(body)
            fr = [hdr] + ([SymInt.lift(n)] if idx == 0 else []) + body
            idb = [SymInt(z3.ZeroExt(1, z3.Extract(8 * i + 7, 8 * i, z3.ZeroExt(3, fid))), 8) for i in (3, 2, 1, 0)]
            pad = [SymInt.var("ip%d_%d_%d" % (k, idx, i), 8) for i in range(8 - len(fr))]
            pk[k].append(SymBytes([0x80 | len(fr)] + idb + fr + pad))
            idx += 1
            if pos >= n:
                break
    nf = len(pk[0])
    seqn = [(k, i) for i in range(nf) for k in range(2)] if order == "alternate" else [(0, 0)] + [(1, i) for i in range(nf)] + [(0, i) for i in range(1, nf)]

    def h():
        dec = R.decoder.NMEA2000Decoder()
        calls = []
        dec._call_decode_function = lambda pgn_, pr_, s_, d_, ts_, dat, iso, raw: calls.append((pgn_, pr_, s_, d_, dat)) or "MSG"
        rets = [(k, i, dec.decode_tcp(pk[k][i])) for k, i in seqn]
        return rets, calls
    try:
        paths, ex = explore(h, max_paths=64, assumptions=assumptions)
    except Unsupported as e:
        rep.inconc("interleaved %r: %s" % (job, e))
        return dict(violations=[], inconclusive=rep.inconclusive, errors=[], samples=[], stats=explorer.STATS)
    for pa in paths:
        st0, m0 = satisfiable(z3.And(pa.cond(), *assumptions))
        if st0 != "sat":
            continue

        def wit(m):
            return {"kind": "interleave", "n": n, "pgn": pgnc, "order": order, "src": m.eval(S, True).as_long(), "prio": m.eval(Pr, True).as_long(),
                    "dst": [m.eval(d_, True).as_long() for d_ in Ds], "seq": [m.eval(q_, True).as_long() for q_ in seqs],
                    "payloads": [bytes(m.eval(p_.t, True).as_long() & 0xFF for p_ in pays[k]).hex() for k in range(2)]}
        if pa.kind != "return":
            rep.violation({"kind": "interleave-raises"}, "raised %r" % (pa.value,), wit(m0))
            continue
        rets, calls = pa.value
        shape_ok = len(calls) == 2 and all((r == "MSG") == (i == nf - 1) for k, i, r in rets)
        if not shape_ok:
            rep.violation({"kind": "interleave-delivery"}, "two interleaved transfers to two destinations: %d message(s) delivered frame by frame, 2 when pre-assembled (returns %r)" % (
                len(calls), [(k, i, r is not None) for k, i, r in rets]), wit(m0))
            continue
        done_order = [k for k, i, r in rets if r == "MSG"]
        cl = []
        for c_, k in zip(calls, done_order):
            cl.append(truth(SymInt.lift(c_[3]) == SymInt(z3.ZeroExt(1, Ds[k]), 8)))
            cl.append(truth(SymInt.lift(c_[2]) == SymInt(z3.ZeroExt(1, S), 8)))
            cl += [truth(SymInt.lift(c_[4][n - 1 - j]) == pays[k][j]) for j in range(n)] if len(c_[4]) == n else [z3.BoolVal(False)]
        st, m = prove(z3.And(*cl), assumptions + pa.pc, label="interleaved-destinations")
        if st == "sat":
            rep.violation({"kind": "interleave-differs"}, "interleaved transfers to two destinations: a delivered message does not carry its own payload / destination", wit(m))
        elif st == "unknown":
            rep.inconc("interleaved %r undecided" % (job,))
    return dict(violations=rep.violations, inconclusive=rep.inconclusive, errors=rep.harness_errors, samples=[], stats=explorer.STATS)


def run(tier, seed):
    from . import explorer
    rep = Report(PID, tier, seed, "other")
    D = db()
    R = loader.load()
    _G.update(R=R, D=D, tier=tier)
    rep.functions = ["decoder.decode_tcp", "decoder.decode_usb", "decoder.decode_yacht_devices_string", "decoder.decode_actisense_string",
                     "decoder.decode_basic_string", "decoder._extract_header", "decoder._decode / _decode_fast_message (fast comparison)"]
    rep.bounds = {"identifier": "all 2^29 (symbolic)", "data": "1..8 symbolic bytes", "text": "every hex digit in either case; decimal tokens with leading zeros; "
                  "two timestamp / direction-marker variants per text format", "fast": "payload lengths 6, 7, 13, 14, 20, 21 (thorough: 1..35, 48..50, 97), symbolic addressing"}
    rep.outside = ["malformed text (C16)", "timestamp values", "decimal tokens without leading zeros are a sub-case of the fixed-width tokens used"]
    rep.stubs = ["_decode replaced by a recorder (single-frame harness); _call_decode_function replaced by a recorder (fast comparison)"]
    jobs = [(fmt, n, v) for fmt in FORMATS for n in ((1, 3, 8) if tier == "quick" else range(1, 9)) for v in ((0, 1) if fmt in ("yacht", "actisense", "basic") else (0,))]
    fp = pick_fast_pgns(D)
    # payload lengths: around the frame capacities (6 in the first frame, 7 in each later one) and exact multiples of 7
    fl = (6, 7, 13, 14, 20, 21) if tier == "quick" else tuple(range(1, 36)) + (48, 49, 50, 97)
    fjobs = [(n_, fp[0]) for n_ in fl] + [(13, 126720), (14, 126720)]
    run_jobs(rep, _worker, jobs, timeout_s=400 if tier == "quick" else 1500)
    run_jobs(rep, _fast_worker, fjobs, timeout_s=400 if tier == "quick" else 3600)
    ijobs = [(13, 126720, "alternate"), (13, 126720, "nested"), (20, 126208, "alternate")]
    run_jobs(rep, _interleave_worker, ijobs, timeout_s=400)
    # (R) the formats as the gateway clients receive them: the real receive loops on streams of packets (among them packets whose
    # data bytes contain a start marker, seeded C07-i) deliver what a decoder returns for the same frames - the harness of C12, one cut per run
    from . import c12, aio
    c12._G.update(R=loader.load(with_io=True), tier=tier)
    rparts = run_jobs(rep, c12._worker, [(c, "cut1") for c in aio.CLIENTS], timeout_s=600)
    rep.count("client_receive_runs", sum(p_.get("n", 0) for p_ in rparts if p_))
    rep.count("interleaved_destination_jobs", len(ijobs))
    rep.count("single_frame_jobs", len(jobs))
    rep.count("fast_jobs", len(fjobs))
    rep.coverage.update(explanation="bounded symbolic verification of the five input front-ends: %d (format, length, variant) jobs over a symbolic identifier, symbolic data bytes "
                        "and symbolic digit characters; %d fast-packet comparisons of pre-assembled vs frame-wise input" % (len(jobs), len(fjobs)))
    rep.assumptions = ["text inputs are well-formed renderings of the frame (digits are hex/decimal digits with the frame's numeric values)"]
    return rep.finish(replay)


def replay_interleave(r):
    from .plain import plain
    N = plain()
    n, pgn = r["n"], r["pgn"]
    pk = [[], []]
    for k in range(2):
        pay = bytes.fromhex(r["payloads"][k])
        fid = (r["prio"] << 26) | (((pgn >> 8) & 0x3FF) << 16) | (r["dst"][k] << 8) | r["src"]
        pos = idx = 0
        while True:
            body = pay[pos:pos + (6 if idx == 0 else 7)]
            pos += len(body)
            fr = bytes([(r["seq"][k] << 5) | idx]) + (bytes([n]) if idx == 0 else b"") + body
            pk[k].append(bytes([0x80 | len(fr)]) + fid.to_bytes(4, "big") + fr + b"\xff" * (8 - len(fr)))
            idx += 1
            if pos >= n:
                break
    nf = len(pk[0])
    seqn = [(k, i) for i in range(nf) for k in range(2)] if r["order"] == "alternate" else [(0, 0)] + [(1, i) for i in range(nf)] + [(0, i) for i in range(1, nf)]
    dec = N.decoder.NMEA2000Decoder()
    calls = []
    dec._call_decode_function = lambda pgn_, pr_, s_, d_, ts_, dat, iso, raw: calls.append((d_, bytes(dat)[::-1])) or "MSG"
    try:
        for k, i in seqn:
            dec.decode_tcp(pk[k][i])
    except Exception as e:
        return True, "raised %r" % (e,)
    want = sorted((r["dst"][k], bytes.fromhex(r["payloads"][k])) for k in range(2))
    return sorted(calls) != want, "delivered %r, sent %r" % ([(d, p.hex()) for d, p in calls], [(d, p.hex()) for d, p in want])


def replay(r):
    if r.get("kind") == "interleave":
        return replay_interleave(r)
    if r.get("kind") == "delivery":
        from . import c12
        return c12.replay(r)
    from .plain import plain
    N = plain()
    if r["kind"] == "input":
        fmt = r["fmt"]
        fid = r["fid"]
        data = bytes.fromhex(r["data"])
        pf = (fid >> 16) & 0xFF
        exp = (((fid >> 8) & 0x3FF00) if pf < 240 else ((fid >> 8) & 0x3FFFF), fid >> 26, fid & 0xFF, ((fid >> 8) & 0xFF) if pf < 240 else 255, data[::-1])
        dec = N.decoder.NMEA2000Decoder()
        rec = []
        dec._decode = lambda pgn_, prio_, src_, dst_, ts, dat, raw, combined=False: rec.append((pgn_, prio_, src_, dst_, bytes(dat)))
        inp = bytes.fromhex(r["input"]) if fmt in ("ebyte", "usb") else r["input"]
        try:
            call(dec, fmt, inp)
        except Exception as e:
            return True, "%s raised %r on %r" % (fmt, e, r["input"])
        return rec != [exp], "input %r -> %r, frame is %r" % (r["input"], rec, exp)
    if r["kind"] == "fast":
        n, pgn = r["n"], r["pgn"]
        pay = bytes.fromhex(r["payload"])
        src, dst, prio, seq = r["src"], r["dst"], r["prio"], r["seq"]
        pf = (pgn >> 8) & 0xFF
        d_eff = dst if pf < 240 else 255
        fid = (prio << 26) | ((pgn | (d_eff if pf < 240 else 0)) << 8) | src
        res = []
        for mode in ("frames", "actisense", "basic"):
            dec = N.decoder.NMEA2000Decoder()
            calls = []
            dec._call_decode_function = lambda pgn_, pr_, s_, d_, ts_, dat, iso, raw: calls.append((pgn_, pr_, s_, d_, bytes(dat))) or "MSG"
            try:
              for _rep in (0, 1):
                if mode == "frames":
                    pos = idx = 0
                    while True:
                        body = pay[pos:pos + (6 if idx == 0 else 7)]
                        pos += len(body)
                        fr = bytes([(seq << 5) | idx]) + (bytes([n]) if idx == 0 else b"") + body
                        dec.decode_tcp(bytes([0x80 | len(fr)]) + fid.to_bytes(4, "big") + fr + bytes(8 - len(fr)))
                        idx += 1
                        if pos >= n:
                            break
                elif mode == "actisense":
                    dec.decode_actisense_string("A000000.000 %05X %05X %s" % ((src << 12) | (d_eff << 4) | prio, pgn, pay.hex().upper()))
                else:
                    dec.decode_basic_string("2020-01-01-00:00:00.000,%d,%d,%d,%d,%d,%s" % (prio, pgn, src, d_eff, n, ",".join("%02x" % b for b in pay)), True)
            except Exception as e:
                return True, "%s raised %r" % (mode, e)
            res.append(calls)
        # one decoder, both kinds of format, either order
        def frames_into(dec_):
            pos = idx = 0
            while True:
                body = pay[pos:pos + (6 if idx == 0 else 7)]
                pos += len(body)
                fr = bytes([(seq << 5) | idx]) + (bytes([n]) if idx == 0 else b"") + body
                dec_.decode_tcp(bytes([0x80 | len(fr)]) + fid.to_bytes(4, "big") + fr + bytes(8 - len(fr)))
                idx += 1
                if pos >= n:
                    break
        for first in ("actisense", "frames"):
            dec = N.decoder.NMEA2000Decoder()
            calls = []
            dec._call_decode_function = lambda pgn_, pr_, s_, d_, ts_, dat, iso, raw: calls.append((pgn_, pr_, s_, d_, bytes(dat))) or "MSG"
            try:
                if first == "actisense":
                    dec.decode_actisense_string("A000000.000 %05X %05X %s" % ((src << 12) | (d_eff << 4) | prio, pgn, pay.hex().upper()))
                    frames_into(dec)
                else:
                    frames_into(dec)
                    dec.decode_basic_string("2020-01-01-00:00:00.000,%d,%d,%d,%d,%d,%s" % (prio, pgn, src, d_eff, n, ",".join("%02x" % b for b in pay)), True)
            except Exception as e:
                return True, "one decoder, %s first: raised %r" % (first, e)
            if len(calls) != 2 or calls[0][4] != calls[1][4]:
                return True, "one decoder, %s first: %d deliveries %r" % (first, len(calls), [c[4].hex() for c in calls])
        return not (res[0] == res[1] == res[2] and len(res[0]) == 2 and res[0][0][4][::-1] == pay), "deliveries %r" % (res,)
    return None, "unknown"
