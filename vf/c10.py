"""C10 - PGN include/exclude filters are a pure selection of the unfiltered output.
The real NMEA2000Decoder.__init__/split_pgn_list/_decode/_call_decode_function run for every filter configuration
of the bound (exclude or include list of up to 2 entries drawn from numbers and ids in several letter cases) on
every history of the bound, with symbolic source addresses, payload bits and NAMEs; per position z3 proves that
the filtered decoder returns exactly what an unfiltered decoder returns when the PGN is permitted and nothing
otherwise, and that the source map is the same."""
import itertools
import os
import z3

from . import loader, envmodels
from .common import Report, guarded, run_jobs
from .explorer import explore, prove, satisfiable, Unsupported, EX
from .hist import World, feed, msg_summary, eq_any, EVENTS, CLAIM, P_SINGLE, P_FAST, P_MULTI, P_FMULTI, fm_frames
from .proxies import SymInt

PID = "C10"
_G = {}
IDS = {CLAIM: "isoAddressClaim", P_SINGLE: "vesselHeading", P_FAST: "dcDetailedStatus"}
ENTRIES = [CLAIM, P_SINGLE, P_FAST, P_MULTI, 126992, "isoAddressClaim", "ISOADDRESSCLAIM", "vesselHeading", "vesselheading", "VESSELHEADING",
           "dcDetailedStatus", "furunoHeave", "FurunoHeave", "noSuchId", "furunoUnknown130820", "SIMNETREPROGRAMSTATUS"]


def permitted(pgn, mid, mode, entries):
    nums = [e for e in entries if isinstance(e, int)]
    ids = [e.lower() for e in entries if isinstance(e, str)]
    hit = pgn in nums or mid.lower() in ids
    if mode == "exclude":
        return not hit
    return hit if entries else True


@guarded
def _worker(job):
    from . import explorer
    explorer.STATS.__init__()
    R = _G["R"]
    rep = Report(PID, _G["tier"], 0, "model_checking")
    configs, histories = job
    w = World()
    states = trans = 0
    import time as _time
    t_stop = _time.time() + (450 if _G["tier"] == "quick" else 4300)
    from . import explorer as _ex
    _ex.DEADLINE[0] = min(_ex.DEADLINE[0] or 1e18, t_stop + 120)        # a single exploration must not outlive the job either
    for mode, entries in configs:
        if _time.time() > t_stop:
            rep.inconc("time budget of the worker exhausted before configuration %r" % ((mode, entries),))
            break
        if len(rep.violations) >= 3:
            break          # enough (distinct) counterexamples from this share of the configurations
        kw = {"exclude_pgns": list(entries)} if mode == "exclude" else {"include_pgns": list(entries)}
        # lists of numbers only: the first history also through the public binary entry point (decode_tcp)
        numeric_only = all(isinstance(e, int) for e in entries)
        # the many short histories of the thorough tier are run with lists of at most one entry; the long ones with every list
        hs = [hh for hh in histories if len(hh) > 2 or len(entries) <= 1]
        for hist, via in [(hh, None) for hh in hs] + ([(histories[0], "tcp")] if numeric_only else []):
            if len(rep.violations) >= 3 or _time.time() > t_stop:
                break
            def h():
                before = list(entries)
                filt = R.decoder.NMEA2000Decoder(**{k: list(v) for k, v in kw.items()})
                ref = R.decoder.NMEA2000Decoder()
                outs = []
                for kind, who in hist:
                    a = feed(filt, w, kind, who, via=via)
                    b = feed(ref, w, kind, who, via=via)
                    outs.append((kind, who, a, b))
                smap = lambda d: sorted(((k, v.name) for k, v in d.source_to_iso_name.items()), key=lambda kv: str(kv[0]))
                return outs, len(filt.source_to_iso_name), len(ref.source_to_iso_name), filt, ref
            try:
                paths, ex = explore(h, max_paths=512, assumptions=w.assume)
            except Unsupported as e:
                rep.inconc("config %r history %r: %s" % ((mode, entries), hist, e))
                continue
            states += len(paths)
            for pa in paths:
                def wit(m):
                    return {"kind": "filter", "mode": mode, "entries": list(entries), "history": [list(x) for x in hist], "via": via,
                            "sa": m.eval(w.sa, True).as_long(), "sb": m.eval(w.sb, True).as_long(), "name1": m.eval(w.name1, True).as_long(),
                            "name2": m.eval(w.name2, True).as_long(), "head": m.eval(w.head, True).as_long(), "soc": m.eval(w.soc, True).as_long()}
                st0, m0 = satisfiable(z3.And(pa.cond(), *w.assume))
                if st0 != "sat":
                    continue
                if pa.kind != "return":
                    rep.violation({"kind": "filter-raises", "mode": mode}, "decoder raised %r with %s=%r" % (pa.value, mode, entries), wit(m0))
                    continue
                outs, nf, nr, filt, ref = pa.value
                claims = []
                bad = None
                for pos, (kind, who, a, b) in enumerate(outs):
                    trans += len(a)
                    for ra, rb in zip(a, b):
                        if rb is None:
                            exp = None
                        else:
                            exp = rb if permitted(rb.PGN, rb.id, mode, entries) else None
                        if (ra is None) != (exp is None):
                            bad = "position %d (%s from %s): filtered decoder returns %s, expected %s" % (
                                pos, kind, who, "a message" if ra is not None else "nothing", "a message" if exp is not None else "nothing")
                            break
                        if ra is not None:
                            claims.append(eq_any(msg_summary(ra), msg_summary(exp)))
                    if bad:
                        break
                if bad is None:
                    # source map identical (address claims are recorded even when filtered out)
                    ka = list(filt.source_to_iso_name.items())
                    kb = list(ref.source_to_iso_name.items())
                    if len(ka) != len(kb):
                        bad = "source map has %d entries, unfiltered %d" % (len(ka), len(kb))
                    else:
                        for (k1, v1), (k2, v2) in zip(ka, kb):
                            claims.append(eq_any((k1, v1.name, v1.manufacturer_code), (k2, v2.name, v2.manufacturer_code)))
                if bad:
                    rep.violation({"kind": "filter-selection", "mode": mode, "entries": repr(list(entries))}, "%s=%r: %s" % (mode, list(entries), bad), wit(m0))
                    continue
                st, m = prove(z3.And(*claims) if claims else z3.BoolVal(True), w.assume + pa.pc, label="filter-content")
                if st == "sat":
                    rep.violation({"kind": "filter-content", "mode": mode, "entries": repr(list(entries))}, "%s=%r: a returned message / the source map differs from the unfiltered decoder" % (mode, list(entries)), wit(m))
                elif st == "unknown":
                    rep.inconc("filter content undecided")
            if list(entries) != [e for e in entries]:
                pass
    rep.sample({"configs": len(configs), "histories": len(histories), "example_config": [configs[0][0], list(configs[0][1])] if configs else None,
                "example_history": [list(x) for x in histories[0]] if histories else None})
    return dict(violations=rep.violations, inconclusive=rep.inconclusive, errors=rep.harness_errors, samples=rep.samples, stats=explorer.STATS, states=states, trans=trans)


def run(tier, seed):
    from . import explorer
    rep = Report(PID, tier, seed, "model_checking")
    from .c01 import Harness
    R = Harness().R          # kernel state-merging (decode_number & co. are summarised into one term per call)
    _G.update(R=R, tier=tier)
    configs = []
    for mode in ("exclude", "include"):
        configs.append((mode, ()))
        configs += [(mode, (e,)) for e in ENTRIES]
        pairs = list(itertools.permutations(ENTRIES, 2))
        if tier == "quick":
            pairs = [pq for pq in pairs if isinstance(pq[0], int) != isinstance(pq[1], int) or pq[0] in (CLAIM, "isoAddressClaim", "ISOADDRESSCLAIM")][::2]
        configs += [(mode, pq) for pq in pairs]
    ev = EVENTS
    histories = [(("claim1", "a"), ("single", "a"), ("fast", "a"), ("multi_furuno", "a"), ("single", "b"), ("claim1", "b"), ("claim2", "a"), ("single", "a"), ("multi_other", "b")),
                 (("fast_first", "a"), ("claim1", "a"), ("fast_last", "a"), ("single", "a"), ("unknown_pgn", "a"), ("multi_furuno", "a")),
                 # two makers' variants of one fast-packet PGN on one stream, same sequence counter (filtered-out traffic must not disturb later results)
                 (("fm_furuno", "a"), ("fm_simnet", "a"), ("fast", "a"), ("fm_furuno", "a"), ("single", "a"), ("fm_simnet", "a"))]
    if tier == "thorough":
        histories += [tuple(hh) for hh in itertools.product(ev, repeat=2)]
    rep.functions = ["decoder.NMEA2000Decoder.__init__", "decoder.split_pgn_list", "decoder._decode", "decoder._decode_fast_message",
                     "decoder._call_decode_function", "message.IsoName.__init__", "pgns.decode_pgn_60928 / 127250 / 127506 / 65280"]
    rep.bounds = {"filter lists": "exclude xor include, 0..2 entries from %d candidates (numbers, ids in original/lower/upper case, unknown id)%s" % (
        len(ENTRIES), " - quick: all singles, a subset of the pairs" if tier == "quick" else ""),
        "histories": "%d histories (the two-event ones only with lists of at most one entry) of up to 9 events (single-frame, fast-packet, multi-definition, address claims from two sources, unknown PGN)" % len(histories),
        "data": "symbolic source addresses (distinct), heading bits, state-of-charge bits, two 64-bit NAMEs"}
    rep.outside = ["lists longer than 2 entries", "manufacturer filters (C11)"]
    nproc = 16
    jobs = [(configs[k::nproc], histories) for k in range(nproc)]
    parts = run_jobs(rep, _worker, jobs, timeout_s=800 if tier == "quick" else 4800)
    st = sum(p["states"] for p in parts if p and "states" in p)
    tr = sum(p["trans"] for p in parts if p and "trans" in p)
    rep.count("configurations", len(configs))
    rep.count("histories", len(histories))
    rep.coverage.update(states=max(1, st), transitions=max(1, tr), traces_validated_against_impl=0,
                        explanation="states = explored (configuration, history, path) triples; transitions = frames fed to the real decoders")
    rep.assumptions = ["the two source addresses differ, the two NAMEs differ, device class/function bits of the NAMEs are fixed (indirect lookup key)"]
    return rep.finish(replay)


def replay(r):
    from datetime import datetime
    from .plain import plain
    N = plain()
    TS = datetime(2020, 1, 1)

    class CW:       # concrete world
        pass
    import struct

    def frames(kind):
        if kind == "single":
            return [(P_SINGLE, bytes([1]) + r["head"].to_bytes(2, "little") + bytes([0xFF, 0x7F, 0xFF, 0x7F, 0xFD]))]
        if kind == "multi_furuno":
            return [(P_MULTI, bytes([0x3F, 0x9F, 0x10, 0, 0, 0, 0xFF, 0xFF]))]
        if kind == "multi_other":
            return [(P_MULTI, bytes([0x13, 0x99, 0x10, 0, 0, 0, 0xFF, 0xFF]))]
        if kind in ("fast", "fast_first", "fast_last"):
            pay = bytes([1, 0, r["soc"], 0x64] + [0xFF] * 7)
            fs = [(P_FAST, bytes([0x40, 11]) + pay[:6]), (P_FAST, bytes([0x41]) + pay[6:] + b"\xff\xff")]
            return fs if kind == "fast" else fs[:1] if kind == "fast_first" else fs[1:]
        if kind in ("claim1", "claim2"):
            return [(CLAIM, r["name1" if kind == "claim1" else "name2"].to_bytes(8, "little"))]
        if kind == "unknown_pgn":
            return [(99999, bytes(8))]
        if kind in ("fm_furuno", "fm_simnet"):
            return [(P_FMULTI, bytes(fr)) for fr in fm_frames(kind)]
    def one(dec_, pgn, src, body):
        if r.get("via") == "tcp":
            pf = (pgn >> 8) & 0xFF
            ident = (3 << 26) | (((pgn | 255) if pf < 240 else pgn) << 8) | src
            return dec_.decode_tcp(bytes([0x80 | len(body)]) + ident.to_bytes(4, "big") + bytes(body) + bytes(8 - len(body)))
        return dec_._decode(pgn, 3, src, 255, TS, bytes(body)[::-1], b"")
    mode, entries = r["mode"], r["entries"]
    kw = {"exclude_pgns": list(entries)} if mode == "exclude" else {"include_pgns": list(entries)}
    try:
        filt = N.decoder.NMEA2000Decoder(**kw)
    except Exception as e:
        return True, "constructor raised %r" % (e,)
    ref = N.decoder.NMEA2000Decoder()
    problems = []

    def summ(m):
        if m is None:
            return None
        iso = m.source_iso_name
        return (m.PGN, m.id, m.source, m.destination, m.priority, [(f.id, f.value, f.raw_value) for f in m.fields], None if iso is None else (iso.name, iso.manufacturer_code))
    for pos, (kind, who) in enumerate(r["history"]):
        src = r["sa"] if who == "a" else r["sb"]
        for pgn, body in frames(kind):
            try:
                a = one(filt, pgn, src, body)
            except Exception as e:
                return True, "filtered decoder raised %r" % (e,)
            b = one(ref, pgn, src, body)
            exp = b if (b is not None and permitted(b.PGN, b.id, mode, entries)) else None
            if summ(a) != summ(exp):
                problems.append("position %d (%s from %s): got %s, expected %s" % (pos, kind, who, "PGN %s" % a.PGN if a else None, "PGN %s" % exp.PGN if exp else None))
    ma = {k: v.name for k, v in filt.source_to_iso_name.items()}
    mb = {k: v.name for k, v in ref.source_to_iso_name.items()}
    if ma != mb:
        problems.append("source map %r vs %r" % (ma, mb))
    return bool(problems), "; ".join(problems[:3])
