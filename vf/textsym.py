"""SymStr: text with concrete layout and symbolic characters (hex / decimal digits).
Supports exactly the string operations the five decoder front-ends and the text encoders use."""
import z3
from .explorer import EX, Unsupported
from .proxies import SymInt, SymBool, SymBytes, truth, register_symbolic, sym_not
from . import proxies as P

WS = " \t\n\r\x0b\x0c"


def _code(ch):
    return ord(ch) if isinstance(ch, str) else ch


def _norm(items):
    out = []
    for c in items:
        if isinstance(c, SymInt):
            c2 = c.simp()
            if isinstance(c2, int):
                c = chr(c2)
            else:
                c = c2
        out.append(c)
    return out


def mk(items):
    items = _norm(items)
    if all(isinstance(c, str) for c in items):
        return "".join(items)
    return SymStr(items)


def hexchar(nib, upper=False):
    """character code of a 4-bit value"""
    n = SymInt.lift(nib)
    t = n.ext(9) if n.w <= 9 else z3.Extract(8, 0, n.t)
    a = 55 if upper else 87
    return SymInt(z3.If(t < 10, t + 48, t + a))


def hexval(c):
    """digit value of a character code known to be a hex digit; None-condition when it is not"""
    c = SymInt.lift(_code(c))
    t = c.ext(9) if c.w <= 9 else c.t
    w = t.size()
    val = z3.If(z3.And(t >= 48, t <= 57), t - 48, z3.If(z3.And(t >= 65, t <= 70), t - 55, t - 87))
    ok = z3.Or(z3.And(t >= 48, t <= 57), z3.And(t >= 65, t <= 70), z3.And(t >= 97, t <= 102))
    return SymInt(val), ok


class SymStr:
    def __init__(self, items):
        self.items = list(items)

    def __len__(self):
        return len(self.items)

    def __iter__(self):
        return iter(mk([c]) for c in self.items)

    def __getitem__(self, i):
        if isinstance(i, slice):
            return mk(self.items[i])
        return mk([self.items[i]])

    def __add__(self, o):
        if isinstance(o, str):
            return mk(self.items + list(o))
        if isinstance(o, SymStr):
            return mk(self.items + o.items)
        return NotImplemented

    def __radd__(self, o):
        if isinstance(o, str):
            return mk(list(o) + self.items)
        return NotImplemented

    def _ws_free(self, c):
        """symbolic characters are digits / letters by construction (constraint added at creation)"""
        return not isinstance(c, str) or c not in WS

    def upper(self):
        out = []
        for c in self.items:
            if isinstance(c, str):
                out.append(c.upper())
            else:
                out.append(SymInt(z3.If(z3.And(c.t >= 97, c.t <= 122), c.t - 32, c.t)))
        return mk(out)

    def lower(self):
        out = []
        for c in self.items:
            if isinstance(c, str):
                out.append(c.lower())
            else:
                out.append(SymInt(z3.If(z3.And(c.t >= 65, c.t <= 90), c.t + 32, c.t)))
        return mk(out)

    def strip(self, chars=None):
        if chars is not None:
            raise Unsupported("strip(chars)")
        it = list(self.items)
        while it and isinstance(it[0], str) and it[0] in WS:
            it.pop(0)
        while it and isinstance(it[-1], str) and it[-1] in WS:
            it.pop()
        return mk(it)

    def split(self, sep=None, maxsplit=-1):
        if maxsplit != -1:
            raise Unsupported("split maxsplit")
        parts, cur = [], []
        if sep is None:
            for c in self.items:
                if isinstance(c, str) and c in WS:
                    if cur:
                        parts.append(cur)
                        cur = []
                else:
                    cur.append(c)
            if cur:
                parts.append(cur)
        else:
            if len(sep) != 1:
                raise Unsupported("multi-char separator")
            for c in self.items:
                if isinstance(c, str) and c == sep:
                    parts.append(cur)
                    cur = []
                else:
                    cur.append(c)
            parts.append(cur)
        return [mk(p) for p in parts]

    def startswith(self, p):
        if len(p) > len(self.items):
            return False
        return self[:len(p)] == p

    def endswith(self, p):
        if len(p) > len(self.items):
            return False
        return self[len(self.items) - len(p):] == p

    def __eq__(self, o):
        if isinstance(o, str):
            o = list(o)
        elif isinstance(o, SymStr):
            o = o.items
        else:
            return False
        if len(o) != len(self.items):
            return False
        cs = []
        for a, b in zip(self.items, o):
            if isinstance(a, str) and isinstance(b, str):
                if a != b:
                    return False
                continue
            e = SymInt.lift(_code(a)) == SymInt.lift(_code(b))
            cs.append(truth(e))
        if not cs:
            return True
        return SymBool(z3.And(*cs))

    def __ne__(self, o):
        return sym_not(self.__eq__(o))

    __hash__ = None

    def __sx_in__(self, container):
        r = False
        for x in container:
            e = self == x
            if isinstance(e, SymBool):
                r = e if r is False else (r | e)
            elif e:
                return True
        return r

    def encode(self, *a):
        return SymBytes([_code(c) if isinstance(c, str) else c for c in self.items])

    def __sx_int__(self, base=10):
        """int(s, base) for symbolic digit characters; ValueError when a character is not a digit"""
        it = list(self.items)
        while it and isinstance(it[0], str) and it[0] in WS:
            it.pop(0)
        while it and isinstance(it[-1], str) and it[-1] in WS:
            it.pop()
        if not it:
            raise ValueError("invalid literal for int()")
        val = 0
        for c in it:
            if base == 16:
                d, ok = hexval(c)
            elif base == 10:
                cc = SymInt.lift(_code(c))
                d, ok = cc - 48, z3.And(truth(cc >= 48), truth(cc <= 57))
            else:
                raise Unsupported("int base %r" % base)
            if not EX().branch(ok):
                raise ValueError("invalid literal for int() with base %d" % base)
            val = val * base + d
        return val.simp() if isinstance(val, SymInt) else val

    def __sx_format__(self, conv, spec):
        if spec:
            raise Unsupported("format spec on symbolic text")
        return self

    def concrete(self, model):
        out = []
        for c in self.items:
            if isinstance(c, str):
                out.append(c)
            else:
                out.append(chr(model.eval(c.t, model_completion=True).as_signed_long() & 0xFF))
        return "".join(out)

    def __repr__(self):
        return "SymStr(%d)" % len(self.items)


register_symbolic(SymStr)


def bytes_hex(b, upper=False):
    out = []
    for e in b.items:
        e = SymInt.lift(e)
        out.append(hexchar(SymInt(z3.ZeroExt(1, z3.Extract(7, 4, e.ext(9)))), upper))
        out.append(hexchar(SymInt(z3.ZeroExt(1, z3.Extract(3, 0, e.ext(9)))), upper))
    return mk(out)


SymBytes.hex = lambda self, *a: bytes_hex(self)


def _symbytes_decode(self, *a, **k):
    return mk([chr(c) if isinstance(c, int) else c for c in self.items])


SymBytes.decode = _symbytes_decode


def fromhex(s):
    if isinstance(s, str):
        return bytes.fromhex(s)
    it = [c for c in s.items if not (isinstance(c, str) and c in WS)]
    if len(it) % 2:
        raise ValueError("non-hexadecimal number found in fromhex() arg")
    out = []
    for i in range(0, len(it), 2):
        hi, ok1 = hexval(it[i])
        lo, ok2 = hexval(it[i + 1])
        if not EX().branch(z3.And(ok1, ok2)):
            raise ValueError("non-hexadecimal number found in fromhex() arg")
        out.append(((hi << 4) | lo).simp())
    return SymBytes(out) if any(isinstance(x, SymInt) for x in out) else bytes(out)


P._BytesNS.fromhex = staticmethod(fromhex)


def format_int(v, spec):
    """format(SymInt, '02X' | '05X' | '02x' | 'd' ...) -> SymStr ; forks on the digit count when needed"""
    if not spec:
        raise Unsupported("decimal rendering of a symbolic int")
    kind = spec[-1]
    if kind not in "xX":
        raise Unsupported("format spec %r" % spec)
    width = 0
    if len(spec) > 1:
        if spec[0] != "0":
            raise Unsupported("format spec %r" % spec)
        width = int(spec[1:-1])
    if bool(v < 0):
        raise Unsupported("negative hex rendering")
    nd = max(width, 1)
    while bool(v >= (1 << (4 * nd))):
        nd += 1
        if nd > 64:
            raise Unsupported("hex rendering too long")
    t = v.ext(4 * nd + 1) if v.w <= 4 * nd + 1 else z3.Extract(4 * nd, 0, v.t)
    out = []
    for i in reversed(range(nd)):
        out.append(hexchar(SymInt(z3.ZeroExt(1, z3.Extract(4 * i + 3, 4 * i, t))), kind == "X"))
    return mk(out)


SymInt.__sx_format__ = lambda self, conv, spec: format_int(self, spec)


def sx_join(sep, it):
    it = list(it)
    if all(isinstance(x, str) for x in it) and isinstance(sep, str):
        return sep.join(it)
    r = None
    for x in it:
        r = x if r is None else (r + sep + x)
    return r if r is not None else ""


# ---- constructors for symbolic input text
def hex_digits(name, n, assumptions):
    """n symbolic characters constrained to [0-9A-Fa-f]; returns (SymStr|str pieces, value SymInt)"""
    chars = []
    val = 0
    for i in range(n):
        c = SymInt.var("%s_c%d" % (name, i), 8)
        d, ok = hexval(c)
        assumptions.append(ok)
        chars.append(c)
        val = val * 16 + d
    return chars, val


def dec_digits(name, n, assumptions):
    chars = []
    val = 0
    for i in range(n):
        c = SymInt.var("%s_d%d" % (name, i), 8)
        assumptions.append(z3.And(truth(c >= 48), truth(c <= 57)))
        chars.append(c)
        val = val * 10 + (c - 48)
    return chars, val
