"""canboat.json read independently of the repository's code (exact decimals)."""
import json
import os
from decimal import Decimal
from fractions import Fraction

REPO = os.environ.get("NMEA2000_REPO", "/repo")


class Field:
    def __init__(self, d, pgn):
        self.d = d
        self.pgn = pgn
        self.order = d["Order"]
        self.type = d["FieldType"]
        self.db_id = d["Id"]
        self.name = d["Name"]
        self.off = d.get("BitOffset")
        self.len = d.get("BitLength")
        self.signed = bool(d.get("Signed", False))
        self.res = Fraction(d["Resolution"]) if "Resolution" in d else None
        self.offset = Fraction(d["Offset"]) if "Offset" in d else Fraction(0)
        self.rmin = Fraction(d["RangeMin"]) if "RangeMin" in d else None
        self.rmax = Fraction(d["RangeMax"]) if "RangeMax" in d else None
        self.unit = d.get("Unit")
        self.pq = d.get("PhysicalQuantity")
        self.key = d.get("PartOfPrimaryKey", False)
        self.match = d.get("Match")
        self.lookup = d.get("LookupEnumeration")
        self.bitlookup = d.get("LookupBitEnumeration")
        self.description = d.get("Description")

    @property
    def id(self):
        """field id as the library reports it"""
        # the generator renders 'reserved_' + str(BitOffset); a field without BitOffset renders as 'reserved_'
        return ("reserved_%s" % ("" if self.d.get("BitOffset") is None else self.d.get("BitOffset"))) if self.type == "RESERVED" else self.db_id

    @property
    def fixed(self):
        return self.off is not None and self.len is not None

    def flt(self, name):
        """binary64 nearest to the decimal literal (what Python reads from the generated source)"""
        v = self.d.get(name)
        return None if v is None else (v if isinstance(v, int) else float(v))


class Pgn:
    def __init__(self, d, idx):
        self.d = d
        self.idx = idx
        self.pgn = d["PGN"]
        self.id = d["Id"]
        self.description = d["Description"]
        self.type = d["Type"]
        self.length = d.get("Length")
        self.interval = d.get("TransmissionInterval")
        self.fallback = bool(d.get("Fallback", False))
        self.fields = [Field(f, self) for f in d["Fields"]]

    @property
    def fast(self):
        return self.type == "Fast"


class DB:
    def __init__(self):
        path = os.path.join(REPO, "canboat.json")
        self.raw = json.load(open(path), parse_float=Decimal)
        self.pgns = [Pgn(p, i) for i, p in enumerate(self.raw["PGNs"])]
        self.groups = {}
        for p in self.pgns:
            self.groups.setdefault(p.pgn, []).append(p)
        self.lookups = {l["Name"]: {e["Value"]: e["Name"] for e in l["EnumValues"]}
                        for l in self.raw["LookupEnumerations"]}
        self.bitlookups = {l["Name"]: {e["Bit"]: e["Name"] for e in l["EnumBitValues"]}
                           for l in self.raw["LookupBitEnumerations"]}
        self.indirect = {l["Name"]: {"%s_%s" % (e["Value1"], e["Value2"]): e["Name"] for e in l["EnumValues"]}
                         for l in self.raw["LookupIndirectEnumerations"]}

    def multi(self, pgn):
        g = self.groups[pgn]
        return len(g) > 1 and any(f.match is not None for p in g for f in p.fields)

    def func_suffix(self, p):
        return "%d_%s" % (p.pgn, p.id) if self.multi(p.pgn) else str(p.pgn)


_DB = None


def db():
    global _DB
    if _DB is None:
        _DB = DB()
    return _DB
