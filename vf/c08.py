"""C08 - proprietary PGN definitions are selected exactly by their match fields.
Translation validation of the 24 generated dispatchers against the selection rule read from canboat.json."""
import z3
from . import loader
from .common import Report, guarded, run_jobs
from .db import db
from .explorer import explore, prove, satisfiable, Unsupported
from .proxies import SymInt

PID = "C08"


_G = {}
import re
_DEF_FN = re.compile(r"^decode_pgn_\d+_\w+$")


@guarded
def _p_worker(pgn):
    """(P) the public path keeps no selection state: two payloads through one decoder instance"""
    from datetime import datetime
    from . import explorer
    from .proxies import SymBytes
    explorer.STATS.__init__()
    R, D = _G["R"], _G["D"]
    rep = Report(PID, _G["tier"], 0, "translation_validation")
    ns = R.pgns.__dict__
    dns = R.decoder.__dict__
    disagreements = 0
    for _once in (0,):
        group = D.groups[pgn]
        saved, dsaved = {}, {}
        for i, p in enumerate(group):
            fn = "decode_pgn_%d_%s" % (pgn, p.id)
            saved[fn] = ns.get(fn)
            dsaved[fn] = dns.get(fn)
            ns[fn] = dns[fn] = (lambda i, p: (lambda data_raw: R.message.NMEA2000Message(PGN=pgn, id=p.id, description=str(i))))(i, p)
        for fn in [k for k in ns if _DEF_FN.match(k) and k not in saved]:
            saved[fn] = ns[fn]
            dsaved[fn] = dns.get(fn)
            ns[fn] = dns[fn] = (lambda fn: (lambda data_raw: R.message.NMEA2000Message(PGN=pgn, id="<foreign definition %s>" % fn, description="x")))(fn)
        # only the bytes that carry match fields are symbolic here (the full-width single-call run above covers the rest)
        W = max([f.off + f.len for p in group for f in p.fields if f.match is not None and f.fixed] or [8])
        nb = (W + 7) // 8
        pa_, pb_ = z3.BitVec("pa", 8 * nb), z3.BitVec("pb", 8 * nb)

        def as_bytes(v):
            return SymBytes([SymInt(z3.ZeroExt(1, z3.Extract(8 * k + 7, 8 * k, v)), 8) for k in range(nb)][::-1])     # handed over last byte first

        def h2():
            dec = R.decoder.NMEA2000Decoder()
            ts = datetime(2020, 1, 1)
            m1 = dec._call_decode_function(pgn, 3, 7, 255, ts, as_bytes(pa_), None, b"")
            m2 = dec._call_decode_function(pgn, 3, 7, 255, ts, as_bytes(pb_), None, b"")
            return (None if m1 is None else m1.id), (None if m2 is None else m2.id)
        try:
            paths, ex = explore(h2, max_paths=20000)
        except Unsupported as e:
            rep.inconc("public path %d: %s" % (pgn, e))
            continue
        finally:
            for fn, v in saved.items():
                if v is None:
                    ns.pop(fn, None)
                else:
                    ns[fn] = v
            for fn, v in dsaved.items():
                if v is None:
                    dns.pop(fn, None)
                else:
                    dns[fn] = v
        if ex.truncated:
            rep.inconc("public path %d: path budget exhausted" % pgn)
        ids = [p.id for p in group]
        spec_b = spec_index(group, z3.ZeroExt(16, pb_))
        spec_a = spec_index(group, z3.ZeroExt(16, pa_))
        for k, p in enumerate(paths):
            if p.kind != "return":
                st0, m0 = satisfiable(p.cond())
                if st0 == "sat":
                    rep.violation({"kind": "public-path-raises", "pgn": pgn}, "PGN %d: decoding two payloads in a row raised %r" % (pgn, p.value),
                                  {"kind": "dispatch2", "pgn": pgn, "a": hex(m0.eval(pa_, True).as_long()), "b": hex(m0.eval(pb_, True).as_long()), "nb": nb})
                continue
            id1, id2 = p.value
            s1 = ids.index(id1) if id1 in ids else (-1 if id1 is None else -3)
            s2 = ids.index(id2) if id2 in ids else (-1 if id2 is None else -3)
            st, m = prove(z3.And(spec_a == z3.BitVecVal(s1, 16), spec_b == z3.BitVecVal(s2, 16)), p.pc, label="dispatch-twice/%d" % pgn)
            if st == "sat":
                disagreements += 1
                a_, b_ = m.eval(pa_, True).as_long(), m.eval(pb_, True).as_long()
                wa, wb = m.eval(spec_a, True).as_signed_long(), m.eval(spec_b, True).as_signed_long()
                rep.violation({"kind": "selection-depends-on-history", "pgn": pgn},
                              "PGN %d: payloads %#x then %#x through one decoder are decoded as %s then %s, the database rule selects %s then %s" % (
                                  pgn, a_, b_, id1, id2, ids[wa] if wa >= 0 else None, ids[wb] if wb >= 0 else None),
                              {"kind": "dispatch2", "pgn": pgn, "a": hex(a_), "b": hex(b_), "nb": nb})
            elif st == "unknown":
                rep.inconc("dispatch-twice/%d: %s" % (pgn, m))
        rep.count("public_path_two_payload_paths", len(paths))
    return dict(violations=rep.violations, inconclusive=rep.inconclusive, errors=rep.harness_errors, samples=rep.samples, stats=explorer.STATS,
                counts=rep.counts, dis=disagreements)


def width_for(group):
    w = 0
    for p in group:
        w = max(w, 8 * (p.length or (223 if p.fast else 8)))
        for f in p.fields:
            if f.match is not None and f.fixed:
                w = max(w, f.off + f.len)
    return w + 16


def spec_index(group, pv):
    """z3 Int-free spec: index (in `group`) of the definition the database rule selects, -1 for none"""
    W = pv.size()
    fb = [i for i, p in enumerate(group) if p.fallback]
    res = z3.BitVecVal(fb[0] if fb else -1, 16)
    for i in reversed(range(len(group))):
        p = group[i]
        if p.fallback:
            continue
        conds = []
        for f in p.fields:
            if f.match is not None:
                if not f.fixed:
                    raise Unsupported("match field without fixed position in %s" % p.id)
                conds.append(z3.Extract(f.off + f.len - 1, f.off, pv) == z3.BitVecVal(int(f.match), f.len))
        c = z3.And(*conds) if conds else z3.BoolVal(True)
        res = z3.If(c, z3.BitVecVal(i, 16), res)
    return res


def run(tier, seed):
    rep = Report(PID, tier, seed, "translation_validation")
    R = loader.load()
    D = db()
    multi = [pgn for pgn in D.groups if D.multi(pgn)]
    rep.functions = ["pgns.decode_pgn_<PGN> dispatchers (%d)" % len(multi), "decoder.NMEA2000Decoder._call_decode_function (two payloads in a row through one instance)", "encoder.NMEA2000Encoder._call_encode_function (name resolution)"]
    rep.bounds = {"payload": "all bit patterns, width = 8*max(Length | 223 fast | 8 single)+16 bits", "dispatchers": len(multi)}
    rep.stubs = ["each decode_pgn_<PGN>_<Id> body replaced by a recorder returning its own name (bodies are C01's subject)"]
    ns = R.pgns.__dict__
    programs = 0
    disagreements = 0
    ndefs = 0
    for pgn in multi:
        group = D.groups[pgn]
        ndefs += len(group)
        name = "decode_pgn_%d" % pgn
        if name not in ns:
            rep.violation({"kind": "dispatcher-missing", "pgn": pgn}, "no dispatcher %s" % name, {"kind": "missing", "name": name})
            continue
        saved = {}
        for i, p in enumerate(group):
            fn = "decode_pgn_%d_%s" % (pgn, p.id)
            saved[fn] = ns.get(fn)
            ns[fn] = (lambda i: (lambda data_raw: ("SEL", i)))(i)
        for fn in [k for k in ns if _DEF_FN.match(k) and k not in saved]:
            saved[fn] = ns[fn]             # the definitions of every other PGN: calling one is a wrong selection, not something to execute
            ns[fn] = (lambda fn: (lambda data_raw: ("FOREIGN", fn)))(fn)
        W = width_for(group)
        pv = z3.BitVec("p", W)
        try:
            paths, ex = explore(lambda: ns[name](SymInt(z3.ZeroExt(1, pv))), max_paths=5000)
        except Unsupported as e:
            rep.inconc("dispatcher %d: %s" % (pgn, e))
            continue
        finally:
            for fn, v in saved.items():
                if v is None:
                    ns.pop(fn, None)
                else:
                    ns[fn] = v
        if ex.truncated:
            rep.inconc("dispatcher %d: path budget exhausted" % pgn)
        programs += 1
        spec = spec_index(group, pv)
        for k, p in enumerate(paths):
            if p.kind == "raise":
                sel = -2
            elif p.value is None:
                sel = -1
            elif isinstance(p.value, tuple) and p.value[0] == "SEL":
                sel = p.value[1]
            else:
                sel = -3          # something that is not one of this PGN's definitions (e.g. another PGN's decoder was called)
            st, m = prove(spec == z3.BitVecVal(sel, 16), p.pc, label="dispatch/%d/%d" % (pgn, k))
            if st == "sat":
                disagreements += 1
                pl = m.eval(pv, True).as_long()
                want = m.eval(spec, True).as_signed_long()
                key = {"kind": "wrong-definition", "pgn": pgn,
                       "expected": group[want].id if want >= 0 else None,
                       "got": group[sel].id if sel >= 0 else ("raise" if sel == -2 else "a message of another PGN's definition" if sel == -3 else None)}
                rep.violation(key, "PGN %d payload %#x: database selects %s, dispatcher gives %s" % (pgn, pl, key["expected"], key["got"]),
                              {"kind": "dispatch", "pgn": pgn, "payload": hex(pl), "expected": key["expected"]})
            elif st == "unknown":
                rep.inconc("dispatch/%d/%d: %s" % (pgn, k, m))
            if len(rep.samples) < 6 and sel >= 0:
                rep.sample({"pgn": pgn, "path": k, "selected": group[sel].id, "path_condition": str(z3.simplify(p.cond()))[:300]})
        # vacuity: every definition that the spec can select must be selected on some path
        selected = {p.value[1] for p in paths if p.kind == "return" and isinstance(p.value, tuple)}
        for i, p in enumerate(group):
            st, _ = satisfiable(spec == z3.BitVecVal(i, 16))
            if st == "sat" and i not in selected:
                # the unreachable definition is reported through the obligations above (spec says i, path says else)
                rep.count("definitions_never_selected")
        rep.count("paths", len(paths))
    # ---- (P) the public path keeps no selection state: two payloads through one decoder instance (one job per PGN)
    _G.update(R=R, D=D, tier=tier)
    parts = run_jobs(rep, _p_worker, sorted(multi, key=lambda g: -len(D.groups[g])), timeout_s=800)
    disagreements += sum(p_.get("dis", 0) for p_ in parts if p_)
    # encode side: name resolution for every definition of the multi PGNs
    enc_ns = R.encoder.__dict__
    for pgn in multi:
        for p in D.groups[pgn]:
            if ("encode_pgn_%d_%s" % (pgn, p.id)) not in enc_ns or ("encode_pgn_%d" % pgn) in enc_ns:
                rep.violation({"kind": "encoder-lookup", "pgn": pgn, "id": p.id}, "encoder for %d/%s cannot be resolved by PGN+id" % (pgn, p.id),
                              {"kind": "enc_lookup", "pgn": pgn, "id": p.id})
    rep.coverage.update(programs=programs, disagreements_checked=disagreements, definitions=ndefs,
                        explanation="one symbolic run per dispatcher; one obligation per path: path condition => selected == database rule")
    rep.assumptions = ["payload handed to the dispatcher is a non-negative integer (int.from_bytes)"]
    return rep.finish(replay)


def replay(r):
    from .plain import plain
    N = plain()
    if r["kind"] == "dispatch":
        pl = int(r["payload"], 16)
        ns = N.pgns.__dict__
        pgn = r["pgn"]
        group = db().groups[pgn]
        calls = []
        saved = {}
        for p in group:
            fn = "decode_pgn_%d_%s" % (pgn, p.id)
            saved[fn] = ns.get(fn)
            ns[fn] = (lambda pid: (lambda d: calls.append(pid) or pid))(p.id)
        try:
            try:
                got = ns["decode_pgn_%d" % pgn](pl)
            except Exception as e:
                got = "raise %r" % (e,)
        finally:
            for fn, v in saved.items():
                if v is not None:
                    ns[fn] = v
        # independent oracle
        exp = None
        for p in group:
            if p.fallback:
                continue
            if all(((pl >> f.off) & ((1 << f.len) - 1)) == int(f.match) for f in p.fields if f.match is not None):
                exp = p.id
                break
        if exp is None:
            fb = [p.id for p in group if p.fallback]
            exp = fb[0] if fb else None
        return got != exp, "payload %s -> %r, database rule -> %r" % (r["payload"], got, exp)
    if r["kind"] == "dispatch2":
        from datetime import datetime
        pgn = r["pgn"]
        group = db().groups[pgn]

        def oracle(pl):
            for p in group:
                if p.fallback:
                    continue
                if all(((pl >> f.off) & ((1 << f.len) - 1)) == int(f.match) for f in p.fields if f.match is not None):
                    return p.id
            fb = [p.id for p in group if p.fallback]
            return fb[0] if fb else None
        ns, dns = N.pgns.__dict__, N.decoder.__dict__
        saved, dsaved = {}, {}
        for p in group:
            fn = "decode_pgn_%d_%s" % (pgn, p.id)
            saved[fn], dsaved[fn] = ns.get(fn), dns.get(fn)
            ns[fn] = dns[fn] = (lambda p: (lambda d: N.message.NMEA2000Message(PGN=pgn, id=p.id, description="x")))(p)
        try:
            dec = N.decoder.NMEA2000Decoder()
            got = []
            for key in ("a", "b"):
                pl = int(r[key], 16)
                try:
                    m = dec._call_decode_function(pgn, 3, 7, 255, datetime(2020, 1, 1), pl.to_bytes(r["nb"], "little")[::-1], None, b"")
                    got.append(None if m is None else m.id)
                except Exception as e:
                    got.append("raise %r" % (e,))
        finally:
            for fn, v in saved.items():
                if v is not None:
                    ns[fn] = v
            for fn, v in dsaved.items():
                if v is not None:
                    dns[fn] = v
        exp = [oracle(int(r["a"], 16)), oracle(int(r["b"], 16))]
        return got != exp, "payloads %s, %s -> %r, database rule -> %r" % (r["a"], r["b"], got, exp)
    if r["kind"] == "enc_lookup":
        ns = N.encoder.__dict__
        bad = ("encode_pgn_%d_%s" % (r["pgn"], r["id"])) not in ns or ("encode_pgn_%d" % r["pgn"]) in ns
        return bad, "lookup"
    if r["kind"] == "missing":
        return r["name"] not in N.pgns.__dict__, "missing"
    return None, "unknown"
