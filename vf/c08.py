"""C08 - proprietary PGN definitions are selected exactly by their match fields.
Translation validation of the 24 generated dispatchers against the selection rule read from canboat.json."""
import z3
from . import loader
from .common import Report
from .db import db
from .explorer import explore, prove, satisfiable, Unsupported
from .proxies import SymInt

PID = "C08"


def width_for(group):
    w = 0
    for p in group:
        w = max(w, 8 * (p.length or (223 if p.fast else 8)))
        for f in p.fields:
            if f.match is not None and f.fixed:
                w = max(w, f.off + f.len)
    return w + 16


def spec_index(group, pv):
    """z3 Int-free spec: index (in `group`) of the definition the database rule selects, -1 for none"""
    W = pv.size()
    fb = [i for i, p in enumerate(group) if p.fallback]
    res = z3.BitVecVal(fb[0] if fb else -1, 16)
    for i in reversed(range(len(group))):
        p = group[i]
        if p.fallback:
            continue
        conds = []
        for f in p.fields:
            if f.match is not None:
                if not f.fixed:
                    raise Unsupported("match field without fixed position in %s" % p.id)
                conds.append(z3.Extract(f.off + f.len - 1, f.off, pv) == z3.BitVecVal(int(f.match), f.len))
        c = z3.And(*conds) if conds else z3.BoolVal(True)
        res = z3.If(c, z3.BitVecVal(i, 16), res)
    return res


def run(tier, seed):
    rep = Report(PID, tier, seed, "translation_validation")
    R = loader.load()
    D = db()
    multi = [pgn for pgn in D.groups if D.multi(pgn)]
    rep.functions = ["pgns.decode_pgn_<PGN> dispatchers (%d)" % len(multi), "encoder.NMEA2000Encoder._call_encode_function (name resolution)"]
    rep.bounds = {"payload": "all bit patterns, width = 8*max(Length | 223 fast | 8 single)+16 bits", "dispatchers": len(multi)}
    rep.stubs = ["each decode_pgn_<PGN>_<Id> body replaced by a recorder returning its own name (bodies are C01's subject)"]
    ns = R.pgns.__dict__
    programs = 0
    disagreements = 0
    ndefs = 0
    for pgn in multi:
        group = D.groups[pgn]
        ndefs += len(group)
        name = "decode_pgn_%d" % pgn
        if name not in ns:
            rep.violation({"kind": "dispatcher-missing", "pgn": pgn}, "no dispatcher %s" % name, {"kind": "missing", "name": name})
            continue
        saved = {}
        for i, p in enumerate(group):
            fn = "decode_pgn_%d_%s" % (pgn, p.id)
            saved[fn] = ns.get(fn)
            ns[fn] = (lambda i: (lambda data_raw: ("SEL", i)))(i)
        W = width_for(group)
        pv = z3.BitVec("p", W)
        try:
            paths, ex = explore(lambda: ns[name](SymInt(z3.ZeroExt(1, pv))), max_paths=5000)
        except Unsupported as e:
            rep.inconc("dispatcher %d: %s" % (pgn, e))
            continue
        finally:
            for fn, v in saved.items():
                if v is None:
                    ns.pop(fn, None)
                else:
                    ns[fn] = v
        if ex.truncated:
            rep.inconc("dispatcher %d: path budget exhausted" % pgn)
        programs += 1
        spec = spec_index(group, pv)
        for k, p in enumerate(paths):
            if p.kind == "raise":
                sel = -2
            elif p.value is None:
                sel = -1
            elif isinstance(p.value, tuple) and p.value[0] == "SEL":
                sel = p.value[1]
            else:
                rep.error("dispatcher %d returned %r" % (pgn, p.value))
                continue
            st, m = prove(spec == z3.BitVecVal(sel, 16), p.pc, label="dispatch/%d/%d" % (pgn, k))
            if st == "sat":
                disagreements += 1
                pl = m.eval(pv, True).as_long()
                want = m.eval(spec, True).as_signed_long()
                key = {"kind": "wrong-definition", "pgn": pgn,
                       "expected": group[want].id if want >= 0 else None,
                       "got": group[sel].id if sel >= 0 else ("raise" if sel == -2 else None)}
                rep.violation(key, "PGN %d payload %#x: database selects %s, dispatcher gives %s" % (pgn, pl, key["expected"], key["got"]),
                              {"kind": "dispatch", "pgn": pgn, "payload": hex(pl), "expected": key["expected"]})
            elif st == "unknown":
                rep.inconc("dispatch/%d/%d: %s" % (pgn, k, m))
            if len(rep.samples) < 6 and sel >= 0:
                rep.sample({"pgn": pgn, "path": k, "selected": group[sel].id, "path_condition": str(z3.simplify(p.cond()))[:300]})
        # vacuity: every definition that the spec can select must be selected on some path
        selected = {p.value[1] for p in paths if p.kind == "return" and isinstance(p.value, tuple)}
        for i, p in enumerate(group):
            st, _ = satisfiable(spec == z3.BitVecVal(i, 16))
            if st == "sat" and i not in selected:
                # the unreachable definition is reported through the obligations above (spec says i, path says else)
                rep.count("definitions_never_selected")
        rep.count("paths", len(paths))
    # encode side: name resolution for every definition of the multi PGNs
    enc_ns = R.encoder.__dict__
    for pgn in multi:
        for p in D.groups[pgn]:
            if ("encode_pgn_%d_%s" % (pgn, p.id)) not in enc_ns or ("encode_pgn_%d" % pgn) in enc_ns:
                rep.violation({"kind": "encoder-lookup", "pgn": pgn, "id": p.id}, "encoder for %d/%s cannot be resolved by PGN+id" % (pgn, p.id),
                              {"kind": "enc_lookup", "pgn": pgn, "id": p.id})
    rep.coverage.update(programs=programs, disagreements_checked=disagreements, definitions=ndefs,
                        explanation="one symbolic run per dispatcher; one obligation per path: path condition => selected == database rule")
    rep.assumptions = ["payload handed to the dispatcher is a non-negative integer (int.from_bytes)"]
    return rep.finish(replay)


def replay(r):
    from .plain import plain
    N = plain()
    if r["kind"] == "dispatch":
        pl = int(r["payload"], 16)
        ns = N.pgns.__dict__
        pgn = r["pgn"]
        group = db().groups[pgn]
        calls = []
        saved = {}
        for p in group:
            fn = "decode_pgn_%d_%s" % (pgn, p.id)
            saved[fn] = ns.get(fn)
            ns[fn] = (lambda pid: (lambda d: calls.append(pid) or pid))(p.id)
        try:
            try:
                got = ns["decode_pgn_%d" % pgn](pl)
            except Exception as e:
                got = "raise %r" % (e,)
        finally:
            for fn, v in saved.items():
                if v is not None:
                    ns[fn] = v
        # independent oracle
        exp = None
        for p in group:
            if p.fallback:
                continue
            if all(((pl >> f.off) & ((1 << f.len) - 1)) == int(f.match) for f in p.fields if f.match is not None):
                exp = p.id
                break
        if exp is None:
            fb = [p.id for p in group if p.fallback]
            exp = fb[0] if fb else None
        return got != exp, "payload %s -> %r, database rule -> %r" % (r["payload"], got, exp)
    if r["kind"] == "enc_lookup":
        ns = N.encoder.__dict__
        bad = ("encode_pgn_%d_%s" % (r["pgn"], r["id"])) not in ns or ("encode_pgn_%d" % r["pgn"]) in ns
        return bad, "lookup"
    if r["kind"] == "missing":
        return r["name"] not in N.pgns.__dict__, "missing"
    return None, "unknown"
