"""Proxy values over z3 terms: exact Python-int semantics on auto-widening signed bit-vectors,
binary64 as z3 FP, optional values, byte strings."""
import builtins
import math
import z3
from .explorer import EX, Unsupported, explore, _STACK

F64 = z3.Float64()
F32 = z3.Float32()
RNE = z3.RNE()
RTZ = z3.RTZ()


# ---------------------------------------------------------------- bool
class SymBool:
    __slots__ = ("t",)

    def __init__(self, t):
        self.t = t

    def __bool__(self):
        return EX().branch(self.t)

    def __and__(self, o):
        return SymBool(z3.And(self.t, _bt(o)))

    __rand__ = __and__

    def __or__(self, o):
        return SymBool(z3.Or(self.t, _bt(o)))

    __ror__ = __or__

    def __invert__(self):
        return SymBool(z3.Not(self.t))

    def __eq__(self, o):
        if isinstance(o, (bool, SymBool)):
            return SymBool(self.t == _bt(o))
        return NotImplemented

    __hash__ = None


def _bt(x):
    if isinstance(x, SymBool):
        return x.t
    if isinstance(x, bool):
        return z3.BoolVal(x)
    if z3.is_expr(x):
        return x
    raise Unsupported("bool of %r" % type(x))


def sym_not(x):
    if isinstance(x, SymBool):
        return SymBool(z3.Not(x.t))
    return not x


def truth(x):
    """z3 Bool term for a Python/proxy truth value without branching"""
    if isinstance(x, SymBool):
        return x.t
    if isinstance(x, SymInt):
        return x.t != 0
    return z3.BoolVal(bool(x))


# ---------------------------------------------------------------- int
def _const_bv(c):
    w = c.bit_length() + 1
    return z3.BitVecVal(c, w)


class SymInt:
    """Python int, exact: signed bit-vector whose width grows so that no operation wraps."""
    __slots__ = ("t", "w", "ub")

    def __init__(self, t, ub=None):
        self.t = t
        self.w = t.size()
        self.ub = ub        # when not None: the value is known (by construction) to lie in [0, 2^ub)

    # construction helpers
    @staticmethod
    def var(name, bits, signed=False):
        v = z3.BitVec(name, bits)
        return SymInt(v) if signed else SymInt(z3.ZeroExt(1, v), bits)

    @staticmethod
    def lift(x):
        if isinstance(x, SymInt):
            return x
        if isinstance(x, bool):
            x = int(x)
        if isinstance(x, int):
            return SymInt(_const_bv(x), x.bit_length() if x >= 0 else None)
        if isinstance(x, SymBool):
            return SymInt(z3.If(x.t, z3.BitVecVal(1, 2), z3.BitVecVal(0, 2)))
        return None

    def ext(self, w):
        return self.t if w == self.w else z3.SignExt(w - self.w, self.t)

    def simp(self):
        t = z3.simplify(self.t)
        if z3.is_bv_value(t):
            return t.as_signed_long()
        return SymInt(t)

    def _bin(self, o, f, grow):
        o2 = SymInt.lift(o)
        if o2 is None:
            return NotImplemented
        w = grow(self.w, o2.w)
        return SymInt(f(self.ext(w), o2.ext(w)))

    # arithmetic
    def __add__(self, o):
        if isinstance(o, (float, SymFloat)):
            return NotImplemented
        return self._bin(o, lambda a, b: a + b, lambda a, b: max(a, b) + 1)

    __radd__ = __add__

    def __sub__(self, o):
        if isinstance(o, (float, SymFloat)):
            return NotImplemented
        return self._bin(o, lambda a, b: a - b, lambda a, b: max(a, b) + 1)

    def __rsub__(self, o):
        o2 = SymInt.lift(o)
        if o2 is None:
            return NotImplemented
        return o2.__sub__(self)

    def __mul__(self, o):
        if isinstance(o, float):
            return to_float(self) * o
        if isinstance(o, SymFloat):
            return NotImplemented
        if isinstance(o, int) and not isinstance(o, bool):
            if o == 1:
                return self
            if o == 0:
                return 0
        return self._bin(o, lambda a, b: a * b, lambda a, b: a + b)

    __rmul__ = __mul__

    def __truediv__(self, o):
        return to_float(self) / o

    def __rtruediv__(self, o):
        return to_float(o) / to_float(self)

    def __neg__(self):
        return SymInt.lift(0) - self

    def __pos__(self):
        return self

    def __abs__(self):
        n = -self
        return SymInt(z3.If(self.t < 0, n.t, self.ext(n.w)))

    def _divmod_const(self, d):
        if not (isinstance(d, int) and d > 0):
            raise Unsupported("floor division by non-constant or non-positive")
        if d & (d - 1) == 0:   # power of two: arithmetic shift / mask, exact floor semantics
            k = d.bit_length() - 1
            return self >> k, self & (d - 1)
        w = max(self.w, d.bit_length() + 1) + 1
        a = self.ext(w)
        dv = z3.BitVecVal(d, w)
        q0 = a / dv            # signed division truncates toward zero
        r0 = z3.SRem(a, dv)
        neg = r0 < 0
        q = z3.If(neg, q0 - 1, q0)
        r = z3.If(neg, r0 + dv, r0)
        return SymInt(q), SymInt(r)

    def __floordiv__(self, d):
        return self._divmod_const(d)[0]

    def __mod__(self, d):
        return self._divmod_const(d)[1]

    def __divmod__(self, d):
        return self._divmod_const(d)

    # bit ops
    def __and__(self, o):
        r = self._bin(o, lambda a, b: a & b, max)
        if r is NotImplemented:
            return r
        if isinstance(o, int) and o >= 0:
            w = o.bit_length() + 1
            if w < r.w:
                r = SymInt(z3.Extract(w - 1, 0, r.t))
            r.ub = o.bit_length() if self.ub is None else min(self.ub, o.bit_length())
        return r

    __rand__ = __and__

    def __or__(self, o):
        r = self._bin(o, lambda a, b: a | b, max)
        o2 = SymInt.lift(o)
        if r is not NotImplemented and o2 is not None and self.ub is not None and o2.ub is not None:
            r.ub = max(self.ub, o2.ub)
        return r

    __ror__ = __or__

    def __xor__(self, o):
        return self._bin(o, lambda a, b: a ^ b, max)

    __rxor__ = __xor__

    def __invert__(self):
        return SymInt(~self.t)

    def __lshift__(self, k):
        if isinstance(k, SymInt):
            k = k.simp()
        if not isinstance(k, int):
            k = EX().concretize(k.t)
        if k < 0:
            raise ValueError("negative shift count")
        return SymInt(z3.Concat(self.t, z3.BitVecVal(0, k)), None if self.ub is None else self.ub + k) if k else self

    def __rlshift__(self, o):
        # const << symbolic : concretise the shift amount
        k = EX().concretize(self.t)
        return o << k

    def __rshift__(self, k):
        if isinstance(k, SymInt):
            k = k.simp()
        if not isinstance(k, int):
            k = EX().concretize(k.t)
        if k < 0:
            raise ValueError("negative shift count")
        if k == 0:
            return self
        if k >= self.w:
            return SymInt(z3.SignExt(1, z3.Extract(self.w - 1, self.w - 1, self.t)))  # 0 or -1
        return SymInt(z3.Extract(self.w - 1, k, self.t))

    # comparisons
    def _cmp(self, o, f, fname):
        if isinstance(o, float):
            return _int_float_cmp(self, o, fname)
        if isinstance(o, SymFloat):
            return NotImplemented
        o2 = SymInt.lift(o)
        if o2 is None:
            return NotImplemented
        w = max(self.w, o2.w)
        return SymBool(f(self.ext(w), o2.ext(w)))

    def __eq__(self, o):
        if o is None or isinstance(o, (str, bytes, tuple, list, type)):
            return False
        return self._cmp(o, lambda a, b: a == b, "eq")

    def __ne__(self, o):
        if o is None or isinstance(o, (str, bytes, tuple, list, type)):
            return True
        return self._cmp(o, lambda a, b: a != b, "ne")

    def __lt__(self, o):
        return self._cmp(o, lambda a, b: a < b, "lt")

    def __le__(self, o):
        return self._cmp(o, lambda a, b: a <= b, "le")

    def __gt__(self, o):
        return self._cmp(o, lambda a, b: a > b, "gt")

    def __ge__(self, o):
        return self._cmp(o, lambda a, b: a >= b, "ge")

    WEAK_HASH = 0x5A17
    WEAK_ALL = True
    WEAK_USED = [0]

    def __hash__(self):
        """narrow values are concretised (one fork per feasible value); wide ones get one constant hash so that
        dict/set lookups fall through to ==, which forks on equality only.  Consequence (stated in evidence):
        a wide symbolic key can only match keys that are themselves symbolic, never a concrete int key."""
        t = z3.simplify(self.t)
        if z3.is_bv_value(t):
            return hash(t.as_signed_long())
        if self.w <= 7 and not SymInt.WEAK_ALL:
            return hash(EX().concretize(self.t))
        SymInt.WEAK_USED[0] += 1
        return SymInt.WEAK_HASH

    def __index__(self):
        return EX().concretize(self.t)

    def __bool__(self):
        return bool(self != 0)

    def __int__(self):
        raise Unsupported("int() of symbolic int reached C code")

    def __round__(self, n=None):
        return self

    def __trunc__(self):
        return self

    def __float__(self):
        raise Unsupported("float() of symbolic int reached C code")

    def __repr__(self):
        return "SymInt(%s)" % z3.simplify(self.t)

    # methods of int used by the code under test
    def bit_length(self):
        """exact: number of bits of |self| (If chain); result is a small SymInt"""
        a = abs(self)
        w = a.w
        rw = w.bit_length() + 1
        r = z3.BitVecVal(0, rw)
        for i in range(w - 1):
            r = z3.If(z3.Extract(i, i, a.t) == 1, z3.BitVecVal(i + 1, rw), r)
        return SymInt(z3.simplify(r))

    def to_bytes(self, length=1, byteorder="big", *, signed=False):
        if isinstance(length, SymInt):
            length = length.simp()
            if not isinstance(length, int):
                if byteorder == "little" and not signed:
                    return SymBytesVar(self, length)     # data-dependent length: keep the integer and the length term
                length = EX().concretize(length.t)
        if signed:
            raise Unsupported("to_bytes signed")
        if self.ub is None or self.ub > 8 * length:
            if bool(self < 0):
                raise OverflowError("can't convert negative int to unsigned")
            if bool(self >= (1 << (8 * length))):
                raise OverflowError("int too big to convert")
        w = 8 * length
        t = self.ext(w + 1) if self.w <= w else z3.Extract(w, 0, self.t)
        items = [SymInt(z3.ZeroExt(1, z3.Extract(8 * i + 7, 8 * i, t))) for i in range(length)]  # little
        if byteorder == "big":
            items.reverse()
        return SymBytes([i.simp() for i in items])


def _int_float_cmp(si, c, op):
    """exact comparison of a symbolic int with a concrete float (Python compares mathematically)"""
    if math.isnan(c):
        return op == "ne"
    if math.isinf(c):
        pos = c > 0
        return {"lt": pos, "le": pos, "gt": not pos, "ge": not pos, "eq": False, "ne": True}[op]
    fl = math.floor(c)
    if fl == c:
        return getattr(si, "__%s__" % op)(int(c))
    # non-integer c: fl < c < fl+1
    if op in ("lt", "le"):
        return si <= fl
    if op in ("gt", "ge"):
        return si >= fl + 1
    return op == "ne"


# ---------------------------------------------------------------- float (exact binary64)
def _fconst(x):
    return z3.FPVal(x, F64)


def _float_of_int_exact_bounds(c):
    """for a concrete int c: (float below-or-equal, float above-or-equal)"""
    f = float(c)
    if int(f) == c:
        return f, f
    if int(f) > c:
        return math.nextafter(f, -math.inf), f
    return f, math.nextafter(f, math.inf)


class SymFloat:
    __slots__ = ("t",)

    def __init__(self, t):
        self.t = t

    @staticmethod
    def var(name):
        return SymFloat(z3.FP(name, F64))

    @staticmethod
    def lift(x):
        if isinstance(x, SymFloat):
            return x
        if isinstance(x, SymInt):
            return SymFloat(z3.fpSignedToFP(RNE, x.t, F64))
        if isinstance(x, bool):
            x = int(x)
        if isinstance(x, int):
            return SymFloat(_fconst(float(x)))     # Python: int -> float conversion, RNE (OverflowError if huge)
        if isinstance(x, float):
            return SymFloat(_fconst(x))
        return None

    def _bin(self, o, f):
        o2 = SymFloat.lift(o)
        if o2 is None:
            return NotImplemented
        return SymFloat(f(RNE, self.t, o2.t))

    def __mul__(self, o):
        return self._bin(o, z3.fpMul)

    __rmul__ = __mul__

    def __add__(self, o):
        return self._bin(o, z3.fpAdd)

    __radd__ = __add__

    def __sub__(self, o):
        return self._bin(o, z3.fpSub)

    def __rsub__(self, o):
        return SymFloat.lift(o)._bin(self, z3.fpSub)

    def __truediv__(self, o):
        o2 = SymFloat.lift(o)
        if o2 is None:
            return NotImplemented
        if not isinstance(o, (int, float)) or o == 0:
            if bool(SymBool(z3.fpIsZero(o2.t))):
                raise ZeroDivisionError("float division by zero")
        return SymFloat(z3.fpDiv(RNE, self.t, o2.t))

    def __rtruediv__(self, o):
        return SymFloat.lift(o).__truediv__(self)

    def __neg__(self):
        return SymFloat(z3.fpNeg(self.t))

    def __abs__(self):
        return SymFloat(z3.fpAbs(self.t))

    def _cmp(self, o, op):
        if isinstance(o, int) and not isinstance(o, bool) and abs(o) >= (1 << 53):
            lo, hi = _float_of_int_exact_bounds(o)
            if lo != hi:   # o lies strictly between two adjacent doubles
                if op in ("lt", "le"):
                    return SymBool(z3.fpLEQ(self.t, _fconst(lo)))
                if op in ("gt", "ge"):
                    return SymBool(z3.fpGEQ(self.t, _fconst(hi)))
                return op == "ne"
        o2 = SymFloat.lift(o)
        if o2 is None:
            return NotImplemented
        f = {"lt": z3.fpLT, "le": z3.fpLEQ, "gt": z3.fpGT, "ge": z3.fpGEQ, "eq": z3.fpEQ,
             "ne": lambda a, b: z3.Not(z3.fpEQ(a, b))}[op]
        return SymBool(f(self.t, o2.t))

    def __lt__(self, o):
        return self._cmp(o, "lt")

    def __le__(self, o):
        return self._cmp(o, "le")

    def __gt__(self, o):
        return self._cmp(o, "gt")

    def __ge__(self, o):
        return self._cmp(o, "ge")

    def __eq__(self, o):
        if o is None or isinstance(o, (str, bytes)):
            return False
        return self._cmp(o, "eq")

    def __ne__(self, o):
        if o is None or isinstance(o, (str, bytes)):
            return True
        return self._cmp(o, "ne")

    __hash__ = None

    def __bool__(self):
        return bool(SymBool(z3.Not(z3.fpIsZero(self.t))))

    INTW = 80

    def _to_int(self, rm):
        b = fp_abs_bound(self.t)
        if b is None:
            if bool(SymBool(z3.fpIsNaN(self.t))):
                raise ValueError("cannot convert float NaN to integer")
            if bool(SymBool(z3.fpIsInf(self.t))):
                raise OverflowError("cannot convert float infinity to integer")
            lim = float(1 << (self.INTW - 2))
            if bool(SymBool(z3.Or(z3.fpGEQ(self.t, _fconst(lim)), z3.fpLEQ(self.t, _fconst(-lim))))):
                raise Unsupported("float to int beyond %d bits" % self.INTW)
            w = self.INTW
        else:
            # finite and bounded by construction (interval analysis of the term): no NaN/Inf/overflow branch exists
            w = max(8, int(b).bit_length() + 3)
        return SymInt(z3.fpToSBV(rm, self.t, z3.BitVecSort(w)))

    def __round__(self, n=None):
        if n is None:
            return self._to_int(RNE)      # Python round(): half to even
        # decimal rounding: modelled as an unconstrained binary64 result (over-approximation; nothing is asserted about it here)
        SymFloat._rnd = getattr(SymFloat, "_rnd", 0) + 1
        return SymFloat(z3.FP("round_%d_%d" % (n, SymFloat._rnd), F64))

    def __trunc__(self):
        return self._to_int(RTZ)

    def __int__(self):
        raise Unsupported("int() of symbolic float reached C code")

    def __float__(self):
        raise Unsupported("float() of symbolic float reached C code")

    def __repr__(self):
        return "SymFloat(%s)" % self.t


def fp_abs_bound(t):
    """sound upper bound of |value| of an FP term built from bounded pieces, or None when unknown / possibly non-finite"""
    k = t.decl().kind() if z3.is_app(t) else None
    if z3.is_fp_value(t):
        if t.isNaN() or t.isInf():
            return None
        return abs(fpval_to_float(t))
    ch = t.children()
    if k == z3.Z3_OP_FPA_TO_FP and len(ch) == 2 and z3.is_bv(ch[1]):
        return float(1 << ch[1].size())
    if k == z3.Z3_OP_FPA_TO_FP_UNSIGNED and len(ch) == 2:
        return float(1 << ch[1].size())
    if k in (z3.Z3_OP_FPA_MUL, z3.Z3_OP_FPA_DIV, z3.Z3_OP_FPA_ADD, z3.Z3_OP_FPA_SUB):
        a, b = fp_abs_bound(ch[1]), fp_abs_bound(ch[2])
        if a is None or b is None:
            return None
        if k == z3.Z3_OP_FPA_MUL:
            r = a * b
        elif k == z3.Z3_OP_FPA_DIV:
            if not z3.is_fp_value(ch[2]) or b == 0:
                return None
            r = a / b
        else:
            r = a + b
        r = r * 1.0000001
        return r if r < 1e300 else None
    if k in (z3.Z3_OP_FPA_NEG, z3.Z3_OP_FPA_ABS):
        return fp_abs_bound(ch[0])
    if k == z3.Z3_OP_ITE:
        a, b = fp_abs_bound(ch[1]), fp_abs_bound(ch[2])
        return None if a is None or b is None else max(a, b)
    return None


def to_float(x):
    r = SymFloat.lift(x)
    if r is None:
        raise Unsupported("to_float %r" % type(x))
    return r


def f32bits_to_f64(bits32):
    """struct.unpack('<f', struct.pack('<I', n)): reinterpret 32 bits as binary32, widen to binary64 (exact)"""
    return SymFloat(z3.fpFPToFP(RNE, z3.fpBVToFP(bits32, F32), F64))


def f64_to_f32bits(x):
    """struct.pack('<f', x) -> bits: round binary64 to binary32 (RNE). OverflowError when finite x overflows."""
    f32 = z3.fpFPToFP(RNE, x.t, F32)
    return f32, z3.fpToIEEEBV(f32)


# ---------------------------------------------------------------- optional
class SymOpt:
    """None when `none` holds, else `inner`"""
    __slots__ = ("none", "inner")

    def __init__(self, none, inner):
        self.none = none
        self.inner = inner

    def _force(self):
        if EX().branch(self.none):
            raise TypeError("unsupported operand type(s): 'NoneType'")
        return self.inner

    def __mul__(self, o):
        return self._force() * o

    __rmul__ = __mul__

    def __truediv__(self, o):
        return self._force() / o

    def __add__(self, o):
        return self._force() + o

    def __sub__(self, o):
        return self._force() - o

    def __lt__(self, o):
        return self._force() < o

    def __gt__(self, o):
        return self._force() > o

    def __le__(self, o):
        return self._force() <= o

    def __ge__(self, o):
        return self._force() >= o

    def __and__(self, o):
        return self._force() & o

    def __rand__(self, o):
        return o & self._force()

    def __or__(self, o):
        return self._force() | o

    def __ror__(self, o):
        return o | self._force()

    def __lshift__(self, o):
        return self._force() << o

    def __rshift__(self, o):
        return self._force() >> o

    def __radd__(self, o):
        return o + self._force()

    def __rsub__(self, o):
        return o - self._force()

    def __floordiv__(self, o):
        return self._force() // o

    def __mod__(self, o):
        return self._force() % o

    def __neg__(self):
        return -self._force()

    def __eq__(self, o):
        if o is None:
            return SymBool(self.none)
        if bool(SymBool(self.none)):
            return False
        return self.inner == o

    def __ne__(self, o):
        return sym_not(self.__eq__(o))

    __hash__ = None

    def __round__(self, n=None):
        return round(self._force()) if n is None else round(self._force(), n)

    def __repr__(self):
        return "SymOpt(%s, %r)" % (z3.simplify(self.none), self.inner)


def is_none(a):
    if isinstance(a, SymOpt):
        return SymBool(a.none)
    return a is None


def _sx_is(a, b):
    if b is None and isinstance(a, SymOpt):
        return SymBool(a.none)
    if b is None and isinstance(a, (SymInt, SymFloat, SymBytes)):
        return False
    # `type(x) is int` / `type(x) is bytes` in code whose `int`/`bytes` names are rebound to the proxy namespaces
    for x, y in ((a, b), (b, a)):
        if y is sx_int and isinstance(x, type):
            return x is int or x is SymInt or x.__name__ == "SymIntZ"
        if y is sx_bytes and isinstance(x, type):
            return x is bytes or x is SymBytes
    return a is b


def _sx_is_not(a, b):
    r = _sx_is(a, b)
    return sym_not(r)


# ---------------------------------------------------------------- merging
def ite(c, a, b):
    """If(c, a, b) over proxy values"""
    if a is b:
        return a
    if type(a) is type(b) and not isinstance(a, (int, float, bool)) and not is_symbolic(a) and not is_symbolic(b):
        try:
            if a == b:
                return a          # two equal concrete values (e.g. the same constant returned on two paths)
        except Exception:
            pass
    for cls in (SymFloat,):
        if isinstance(a, (SymFloat, float)) or isinstance(b, (SymFloat, float)):
            a2, b2 = SymFloat.lift(a), SymFloat.lift(b)
            return SymFloat(z3.If(c, a2.t, b2.t))
    if isinstance(a, (SymBool, bool)) and isinstance(b, (SymBool, bool)):
        return SymBool(z3.If(c, _bt(a), _bt(b)))
    a2, b2 = SymInt.lift(a), SymInt.lift(b)
    if a2 is None or b2 is None:
        raise Unsupported("cannot merge %r with %r" % (type(a), type(b)))
    w = max(a2.w, b2.w)
    return SymInt(z3.If(c, a2.ext(w), b2.ext(w)))


def merge_paths(paths, defer_to=None):
    """merge the (return value | None | raise) outcomes of explored paths of a pure kernel into one value.
    returns (value, raise_cond, exc)"""
    raise_c = []
    none_c = []
    val = None
    exc = None
    for p in paths:
        g = p.cond()
        if p.kind == "raise":
            raise_c.append(g)
            exc = p.value
            continue
        if p.kind != "return":
            raise Unsupported("kernel path ended with %s" % p.kind)
        for dg, de in p.deferred:
            raise_c.append(z3.And(g, dg))
            exc = de
        v = p.value
        if isinstance(v, SymOpt):
            none_c.append(z3.And(g, v.none))
            g = z3.And(g, z3.Not(v.none))
            v = v.inner
        if v is None:
            none_c.append(g)
        else:
            val = v if val is None else ite(g, v, val)
    rc = z3.simplify(z3.Or(*raise_c)) if raise_c else z3.BoolVal(False)
    nc = z3.simplify(z3.Or(*none_c)) if none_c else z3.BoolVal(False)
    if val is None:
        out = None
    elif z3.is_false(nc):
        out = val
    else:
        out = SymOpt(nc, val)
    return out, rc, exc


SYM_TYPES = None  # filled below


def is_symbolic(a):
    return isinstance(a, SYM_TYPES)


def summarize(fn, defer=True):
    """state merging at a pure kernel: explore fn's own paths in a nested explorer, return one merged value;
    a raise becomes a deferred guard on the caller's path (defer=True) or a fork (defer=False)."""
    def wrapper(*args, **kw):
        if not any(is_symbolic(a) for a in args) and not any(is_symbolic(a) for a in kw.values()):
            return fn(*args, **kw)
        outer = EX()
        # the nested exploration inherits the caller's assumptions and (float-free) path condition
        from .explorer import has_fp
        inherited = list(outer.base) + [c for c in outer.pc if not has_fp(c)]
        paths, _ = explore(lambda: fn(*args, **kw), fuel=outer.fuel0, assumptions=inherited)
        out, rc, exc = merge_paths(paths)
        if exc is not None and not z3.is_false(rc):
            if z3.is_true(rc) and out is None:
                raise exc            # the kernel raises on every path for these arguments: nothing to defer
            if defer:
                outer.deferred.append((rc, exc))
            elif outer.branch(rc):
                raise exc
        return out
    wrapper.__wrapped__ = fn
    wrapper.__name__ = getattr(fn, "__name__", "kernel")
    return wrapper


# ---------------------------------------------------------------- bytes
class SymBytes:
    """byte string of concrete length whose items are ints or SymInts in 0..255"""

    def __init__(self, items):
        self.items = list(items)

    @staticmethod
    def var(name, n):
        return SymBytes([SymInt.var("%s_%d" % (name, i), 8) for i in range(n)])

    def __len__(self):
        return len(self.items)

    def __getitem__(self, i):
        if isinstance(i, slice):
            return SymBytes(self.items[i])
        if isinstance(i, SymInt):
            i = i.__index__()
        return self.items[i]

    def __iter__(self):
        return iter(self.items)

    def __add__(self, o):
        if isinstance(o, (bytes, bytearray, SymBytes)):
            return SymBytes(self.items + list(o))
        return NotImplemented

    def __radd__(self, o):
        if isinstance(o, (bytes, bytearray)):
            return SymBytes(list(o) + self.items)
        return NotImplemented

    def __eq__(self, o):
        if isinstance(o, (bytes, bytearray, SymBytes)):
            o = list(o)
            if len(o) != len(self.items):
                return False
            c = [truth(a == b) for a, b in zip(self.items, o)]
            return SymBool(z3.And(*c)) if c else True
        return False

    def __ne__(self, o):
        return sym_not(self.__eq__(o))

    __hash__ = None

    def hex(self, *a):
        return "<symbolic bytes>"

    def concrete(self, model):
        out = []
        for b in self.items:
            if isinstance(b, SymInt):
                v = model.eval(b.t, model_completion=True).as_signed_long()
                out.append(v & 0xFF)
            else:
                out.append(b)
        return builtins.bytes(out)

    def __repr__(self):
        return "SymBytes(%d)" % len(self.items)


class _BytesNS:
    """replacement for the name `bytes` inside instrumented modules"""

    def __call__(self, x=b"", *a):
        if isinstance(x, SymBytes):
            return x
        if isinstance(x, (builtins.bytes, bytearray, str, int)) and not isinstance(x, SymInt):
            return builtins.bytes(x, *a)
        x = list(x)
        if any(isinstance(e, SymInt) for e in x):
            for e in x:
                if isinstance(e, SymInt):
                    if bool((e < 0) | (e > 255)):
                        raise ValueError("bytes must be in range(0, 256)")
            return SymBytes(x)
        return builtins.bytes(x)

    fromhex = staticmethod(builtins.bytes.fromhex)

    def __or__(self, o):
        return builtins.bytes | o

    def __ror__(self, o):
        return o | builtins.bytes


sx_bytes = _BytesNS()


class SymBytesVar:
    """int.to_bytes(n, 'little') with a data-dependent length n: the integer and the (symbolic) length in bytes"""

    def __init__(self, value, length):
        self.value, self.length = value, SymInt.lift(length)

    def __sx_len__(self):
        return self.length

    def _byte(self, i):
        v = self.value
        if 8 * i + 8 > v.w:
            t = v.ext(8 * i + 9)
        else:
            t = v.t
        return SymInt(z3.ZeroExt(1, z3.Extract(8 * i + 7, 8 * i, t)), 8)

    def __getitem__(self, i):
        if isinstance(i, slice):
            if i.step not in (None, 1):
                raise Unsupported("stepped slice of variable-length bytes")
            start = 0 if i.start is None else i.start
            stop = i.stop
            if isinstance(start, SymInt):
                start = EX().concretize(start.t)
            # effective stop = min(stop, length): fork on the (small) set of feasible values
            eff = self.length if stop is None else sx_min(SymInt.lift(stop), self.length)
            eff = EX().concretize(SymInt.lift(eff).t) if isinstance(eff, SymInt) else eff
            return SymBytes([self._byte(k) for k in range(start, max(start, eff))])
        if isinstance(i, SymInt):
            i = EX().concretize(i.t)
        if i < 0:
            raise Unsupported("negative index into variable-length bytes")
        if bool(SymInt.lift(i) >= self.length):
            raise IndexError("index out of range")
        return self._byte(i)


def int_from_bytes(b, byteorder="big", *, signed=False):
    if not isinstance(b, SymBytes):
        return builtins.int.from_bytes(b, byteorder, signed=signed)
    items = b.items if byteorder == "big" else b.items[::-1]
    if not items:
        return 0
    parts = []
    for e in items:
        e = SymInt.lift(e)
        parts.append(z3.Extract(7, 0, e.ext(9)))
    if signed:
        # two's complement of the whole byte string (SymInt terms are signed bit-vectors): sign-extend by one bit
        body = z3.Concat(*parts) if len(parts) > 1 else parts[0]
        return SymInt(z3.SignExt(1, body))
    return SymInt(z3.Concat(z3.BitVecVal(0, 1), *parts) if len(parts) > 0 else parts[0])


class _IntNS:
    """replacement for the name `int` inside instrumented modules"""

    def __call__(self, x=0, *a):
        if isinstance(x, SymInt):
            return x
        if isinstance(x, SymFloat):
            return x.__trunc__()
        if isinstance(x, SymOpt):
            return self(x._force())
        if hasattr(x, "__sx_int__"):
            return x.__sx_int__(*a)
        return builtins.int(x, *a)

    from_bytes = staticmethod(int_from_bytes)

    def __instancecheck__(self, inst):
        return isinstance(inst, (builtins.int, SymInt))

    def __or__(self, o):          # `int | float | None` in annotations
        return builtins.int | o

    def __ror__(self, o):
        return o | builtins.int


sx_int = _IntNS()


def sx_round(x, n=None):
    if isinstance(x, (SymInt, SymFloat, SymOpt)) or hasattr(x, "__sx_round__"):
        if hasattr(x, "__sx_round__"):
            return x.__sx_round__(n)
        return x.__round__(n) if n is not None else x.__round__()
    return builtins.round(x, n) if n is not None else builtins.round(x)


def sx_len(x):
    if hasattr(x, "__sx_len__"):
        return x.__sx_len__()
    return builtins.len(x)


def sx_isinstance(obj, cls):
    """isinstance that treats proxies as the Python types they stand for; SymOpt forks on None-ness"""
    if isinstance(obj, SymOpt):
        if EX().branch(obj.none):
            return builtins.isinstance(None, _real_cls(cls))
        return sx_isinstance(obj.inner, cls)
    if isinstance(obj, SymInt):
        return _cls_accepts(cls, builtins.int)
    if isinstance(obj, SymFloat):
        return _cls_accepts(cls, builtins.float)
    if isinstance(obj, SymBytes):
        return _cls_accepts(cls, builtins.bytes)
    if hasattr(obj, "__sx_isinstance__"):
        return obj.__sx_isinstance__(cls)
    return builtins.isinstance(obj, _real_cls(cls))


def _real_cls(cls):
    if isinstance(cls, tuple):
        return tuple(_real_cls(c) for c in cls)
    if cls is sx_int:
        return builtins.int
    if cls is sx_bytes:
        return builtins.bytes
    return cls


def _cls_accepts(cls, base):
    if isinstance(cls, tuple):
        return any(_cls_accepts(c, base) for c in cls)
    cls = _real_cls(cls)
    return isinstance(cls, type) and issubclass(base, cls)


def sx_sum(it, start=0):
    r = start
    for x in it:
        r = r + x
    return r


def sx_min(*a):
    if len(a) == 1:
        a = list(a[0])
    r = a[0]
    for x in a[1:]:
        if isinstance(x, SymInt) or isinstance(r, SymInt):
            c = truth(SymInt.lift(x) < r)
            r = ite(c, x, r)
        else:
            r = builtins.min(r, x)
    return r.simp() if isinstance(r, SymInt) else r


SYM_TYPES = (SymInt, SymFloat, SymOpt, SymBool, SymBytes, SymBytesVar)


def register_symbolic(*cls):
    global SYM_TYPES
    SYM_TYPES = SYM_TYPES + tuple(cls)


def ev(model, x):
    """evaluate a proxy under a model to a concrete Python value"""
    if isinstance(x, SymOpt):
        if z3.is_true(model.eval(x.none, model_completion=True)):
            return None
        return ev(model, x.inner)
    if isinstance(x, SymInt):
        return model.eval(x.t, model_completion=True).as_signed_long()
    if isinstance(x, SymBool):
        return z3.is_true(model.eval(x.t, model_completion=True))
    if isinstance(x, SymFloat):
        return fpval_to_float(model.eval(x.t, model_completion=True))
    if isinstance(x, SymBytes):
        return x.concrete(model)
    return x


def fpval_to_float(v):
    import struct
    v = z3.simplify(v)
    if z3.is_fp_value(v) or z3.is_fp(v):
        bv = z3.simplify(z3.fpToIEEEBV(v))
        if z3.is_bv_value(bv):
            n = bv.as_long()
            if bv.size() == 64:
                return struct.unpack("<d", struct.pack("<Q", n))[0]
            return struct.unpack("<f", struct.pack("<I", n))[0]
        if v.isNaN():
            return math.nan
        if v.isInf():
            return -math.inf if v.isNegative() else math.inf
        if v.isZero():
            return -0.0 if v.isNegative() else 0.0
    raise Unsupported("cannot evaluate fp value %s" % v)
