"""The plain (uninstrumented) repository code, imported fresh from NMEA2000_REPO for replays and validation."""
import importlib
import os
import sys
import types

REPO = os.environ.get("NMEA2000_REPO", "/repo")
_CACHE = {}


def plain(with_io=False):
    if "N" in _CACHE and (not with_io or hasattr(_CACHE["N"], "ioclient")):
        return _CACHE["N"]
    for k in [k for k in sys.modules if k == "nmea2000" or k.startswith("nmea2000.")]:
        del sys.modules[k]
    if sys.path[0] != REPO:
        sys.path.insert(0, REPO)
    N = types.SimpleNamespace()
    import logging
    logging.getLogger("nmea2000").setLevel(logging.CRITICAL)
    N.utils = importlib.import_module("nmea2000.utils")
    N.message = importlib.import_module("nmea2000.message")
    N.pgns = importlib.import_module("nmea2000.pgns")
    N.decoder = importlib.import_module("nmea2000.decoder")
    N.encoder = importlib.import_module("nmea2000.encoder")
    N.consts = importlib.import_module("nmea2000.consts")
    if with_io:
        N.ioclient = importlib.import_module("nmea2000.ioclient")
    assert os.path.realpath(N.utils.__file__).startswith(os.path.realpath(REPO)), N.utils.__file__
    _CACHE["N"] = N
    return N
