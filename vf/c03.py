"""C03 - fast-packet segmentation and reassembly are inverse for every payload length.
The real _encode_fast_message and the real _decode/_decode_fast_message run on symbolic payload bytes and a
symbolic 3-bit sequence counter, once per payload length 0..223 (the loop trip count must be concrete)."""
import os
from datetime import datetime
import z3

from . import loader
from .common import Report, guarded, merge_part
from .db import db
from .explorer import explore, prove, satisfiable, Unsupported, EX
from .proxies import SymInt, SymBytes, truth, ev

PID = "C03"


def segment(M, enc, pgn, prio, src, dst, payload):
    """the frames the encoder produces for a fast-packet message with this payload: through the encoder's own `_encode`
    (which decides whether and how a message is segmented), with the per-PGN codec replaced by the given payload"""
    msg = M.message.NMEA2000Message(PGN=pgn, id="x", description="x")
    msg.priority, msg.source, msg.destination = prio, src, dst
    enc._call_encode_function = lambda m: payload
    return enc._encode(msg)

_G = {}
TS = datetime(2020, 1, 1)


def pick_fast_pgns(D):
    """two fast-packet PGN numbers known to the library (single-definition ones)"""
    out = []
    for p in D.pgns:
        if p.fast and not D.multi(p.pgn) and len(D.groups[p.pgn]) == 1:
            out.append(p.pgn)
        if len(out) == 2:
            break
    return out


def expected_frames(n):
    return 1 if n <= 6 else 1 + (n - 6 + 6) // 7


@guarded
def _len_worker(ns):
    from . import explorer
    explorer.STATS.__init__()
    R = _G["R"]
    D = _G["D"]
    rep = Report(PID, _G["tier"], 0, "other")
    pgn = _G["pgns"][0]
    for n in ns:
        sv = z3.BitVec("seq", 3)
        pay = SymBytes.var("p", n)
        src, dst, prio = 7, 255, 3

        def h():
            enc = R.encoder.NMEA2000Encoder()
            enc.sequence_counter = SymInt(z3.ZeroExt(1, sv), 3)
            frames = segment(R, enc, pgn, prio, src, dst, pay)
            dec = R.decoder.NMEA2000Decoder()
            calls = []
            dec._call_decode_function = lambda pgn_, pr_, s_, d_, ts_, data, iso, raw: calls.append((pgn_, pr_, s_, d_, data)) or "MSG"
            rets = []
            for fr in frames:
                can = fr[::-1] if isinstance(fr, SymBytes) else bytes(fr[::-1])
                rets.append(dec._decode(pgn, prio, src, dst, TS, can, b""))
            return frames, enc.sequence_counter, rets, calls, dict(dec.data)
        try:
            paths, ex = explore(h, max_paths=32)
        except Unsupported as e:
            rep.inconc("n=%d: %s" % (n, e))
            continue

        def witness(m):
            return {"kind": "fast", "n": n, "seq": m.eval(sv, True).as_long() if m is not None else 0,
                    "payload": (pay.concrete(m) if m is not None else bytes(n)).hex(), "pgn": pgn}
        for pa in paths:
            st0, m0 = satisfiable(pa.cond())
            if st0 != "sat":
                continue
            if pa.kind != "return":
                rep.violation({"kind": "fast-raises", "n": n}, "n=%d: %r" % (n, pa.value), witness(m0))
                continue
            frames, seq2, rets, calls, left = pa.value
            claims = []
            ok_struct = True
            nf = expected_frames(n)
            if len(frames) != nf:
                ok_struct = False
            total = 0
            for i, fr in enumerate(frames):
                ln = len(fr)
                if ln > 8 or ln < (2 if i == 0 else 2):
                    ok_struct = ok_struct and (i == 0 and n == 0 and ln == 2)
                hdr = fr[0]
                claims.append(truth(SymInt.lift(hdr) == ((SymInt(z3.ZeroExt(1, sv), 3) << 5) | i)))
                if i == 0:
                    if ln < 2:
                        ok_struct = False
                    else:
                        claims.append(truth(SymInt.lift(fr[1]) == n))
                    data = list(fr[2:])
                else:
                    data = list(fr[1:])
                    if not data:
                        ok_struct = False       # a frame for data that does not exist
                for j, b in enumerate(data):
                    if total + j < n:
                        claims.append(truth(SymInt.lift(b) == SymInt.lift(pay[total + j])))
                total += len(data)
            if total != n:
                ok_struct = False
            claims.append(truth(SymInt.lift(seq2) == SymInt(z3.ZeroExt(1, sv + 1), 3)))
            # decoder: nothing until the last frame, then exactly one message with the original payload
            if any(r is not None for r in rets[:-1]) or (rets and rets[-1] != "MSG") or len(calls) != 1:
                ok_struct = False
            else:
                got = calls[0][4]
                if len(got) != n:
                    ok_struct = False
                else:
                    for j in range(n):
                        claims.append(truth(SymInt.lift(got[n - 1 - j]) == SymInt.lift(pay[j])))
                if calls[0][:4] != (pgn, prio, src, dst):
                    ok_struct = False
            if not ok_struct:
                rep.violation({"kind": "fast-structure", "n": n}, "n=%d: frame structure / delivery wrong (frames=%d, expected %d)" % (n, len(frames), nf), witness(m0))
                continue
            st, m = prove(z3.And(*claims) if claims else z3.BoolVal(True), pa.pc, label="fast/n=%d" % n)
            if st == "sat":
                rep.violation({"kind": "fast-content", "n": n}, "n=%d: frame bytes / recovered payload / next counter wrong" % n, witness(m))
            elif st == "unknown":
                rep.inconc("n=%d undecided" % n)
        if n in (0, 6, 7, 223) and len(rep.samples) < 4:
            rep.sample({"payload_length": n, "paths": len(paths), "frames": expected_frames(n)})
    return dict(violations=rep.violations, inconclusive=rep.inconclusive, errors=rep.harness_errors, samples=rep.samples, stats=explorer.STATS)


@guarded
def _history_worker(spec):
    """consecutive messages on one encoder / one decoder: counter wrap-around and stream re-use"""
    from . import explorer
    explorer.STATS.__init__()
    R = _G["R"]
    rep = Report(PID, _G["tier"], 0, "other")
    pgns = _G["pgns"]
    name, order, n = spec
    sv = z3.BitVec("seq", 3)
    pays = [SymBytes.var("m%d" % k, n) for k in range(len(order))]

    def h():
        enc = R.encoder.NMEA2000Encoder()
        enc.sequence_counter = SymInt(z3.ZeroExt(1, sv), 3)
        dec = R.decoder.NMEA2000Decoder()
        calls = []
        dec._call_decode_function = lambda pgn_, pr_, s_, d_, ts_, data, iso, raw: calls.append((pgn_, data)) or "MSG"
        log = []
        for k, which in enumerate(order):
            pgn = pgns[which]
            frames = segment(R, enc, pgn, 3, 7, 255, pays[k])
            rets = []
            for fr in frames:
                rets.append(dec._decode(pgn, 3, 7, 255, TS, fr[::-1], b""))
            log.append((pgn, rets, len(calls)))
        return log, calls
    try:
        paths, ex = explore(h, max_paths=64)
    except Unsupported as e:
        rep.inconc("history %s: %s" % (name, e))
        return dict(violations=[], inconclusive=rep.inconclusive, errors=[], samples=[], stats=explorer.STATS)
    for pa in paths:
        st0, m0 = satisfiable(pa.cond())
        if st0 != "sat":
            continue

        def wit(m):
            return {"kind": "history", "order": list(order), "n": n, "seq": m.eval(sv, True).as_long() if m is not None else 0,
                    "payloads": [(p_.concrete(m) if m is not None else bytes(n)).hex() for p_ in pays], "pgns": pgns}
        if pa.kind != "return":
            rep.violation({"kind": "history-raises", "history": name}, "history %s raised %r" % (name, pa.value), wit(m0))
            continue
        log, calls = pa.value
        claims = []
        bad = False
        for k, (pgn, rets, ncalls) in enumerate(log):
            if any(r is not None for r in rets[:-1]) or rets[-1] != "MSG" or ncalls != k + 1:
                bad = True
                break
            got = calls[k][1]
            if calls[k][0] != pgn or len(got) != n:
                bad = True
                break
            for j in range(n):
                claims.append(truth(SymInt.lift(got[n - 1 - j]) == SymInt.lift(pays[k][j])))
        if bad:
            rep.violation({"kind": "history-delivery", "history": name}, "history %s: message %d not delivered exactly once at its last frame" % (name, k), wit(m0))
            continue
        st, m = prove(z3.And(*claims), pa.pc, label="history/%s" % name)
        if st == "sat":
            rep.violation({"kind": "history-content", "history": name}, "history %s: a delivered payload differs from what was sent" % name, wit(m))
        elif st == "unknown":
            rep.inconc("history %s undecided" % name)
    rep.sample({"history": name, "messages": len(order), "paths": len(paths)})
    return dict(violations=rep.violations, inconclusive=rep.inconclusive, errors=rep.harness_errors, samples=rep.samples, stats=explorer.STATS)


def run(tier, seed):
    import multiprocessing as mp
    from . import explorer
    rep = Report(PID, tier, seed, "other")
    D = db()
    R = loader.load()
    pg = pick_fast_pgns(D)
    _G.update(R=R, D=D, tier=tier, pgns=pg)
    rep.functions = ["encoder.NMEA2000Encoder._encode (per-PGN codec replaced by the payload) / _encode_fast_message", "decoder.NMEA2000Decoder._decode", "decoder._decode_fast_message",
                     "decoder._isFastPGN", "decoder.fast_pgn_metadata"]
    rep.bounds = {"payload_length": "every length 0..223 (pinned per run: enumerated, the loop trip count must be concrete)",
                  "payload_bytes": "symbolic", "sequence_counter": "symbolic 3-bit state of the encoder",
                  "histories": "9 consecutive messages on one encoder/decoder, same stream and alternating streams, symbolic start counter"}
    rep.outside = ["payloads longer than 223 bytes", "histories longer than 9 messages"]
    rep.stubs = ["_call_decode_function replaced by a recorder (what is delivered is observed; field decoding is C01)"]
    lens = list(range(224))
    nproc = max(1, min(16, os.cpu_count() or 1))
    chunks = [lens[k::nproc] for k in range(nproc)]
    hist = [("same-stream x9", (0,) * 9, 9), ("A,7xB,A", (0, 1, 1, 1, 1, 1, 1, 1, 0), 9), ("same-stream x9 short", (0,) * 9, 3),
            ("A,15xB,A", (0,) + (1,) * 15 + (0,), 7), ("alternating", (0, 1) * 5, 13)]
    # (W) an abandoned message and then a full turn of the 3-bit counter (C04's wrap-around worker, seeded C03-i)
    from . import c04
    c04._G.update(R=R, D=D, tier=tier, pgns=pg)
    ctx = mp.get_context("fork")
    with ctx.Pool(nproc) as pool:
        jobs = [pool.apply_async(_len_worker, (c,)) for c in chunks] + [pool.apply_async(_history_worker, (hh,)) for hh in hist] + \
               [pool.apply_async(c04._wrap_worker, (n0,)) for n0 in (13, 20)]
        for j in jobs:
            part = j.get()
            for v in part["violations"]:
                rep.violation(*v)
            rep.inconclusive += part["inconclusive"]
            rep.harness_errors += part["errors"]
            for s in part["samples"]:
                rep.sample(s)
            explorer.STATS.merge(part["stats"])
    rep.count("payload_lengths", len(lens))
    rep.count("histories", len(hist))
    rep.coverage.update(exhaustive=False, explanation="bounded symbolic verification: one symbolic run per payload length 0..223 (all bytes and all 8 "
                        "counter states symbolic), plus 5 multi-message histories; each obligation is a QF_BV proof")
    rep.assumptions = ["a fast-packet PGN known to the library is used for the stream (two PGNs for the multi-stream histories)"]
    return rep.finish(replay)


def replay(r):
    if r["kind"] == "history" and r.get("job", [None])[0] == "wrap":
        from . import c04
        return c04.replay(r)
    from .plain import plain
    N = plain()
    if r["kind"] == "fast":
        n, seq, pgn = r["n"], r["seq"], r["pgn"]
        payload = bytes.fromhex(r["payload"])
        enc = N.encoder.NMEA2000Encoder()
        enc.sequence_counter = seq
        try:
            frames = segment(N, enc, pgn, 3, 7, 255, payload)
        except Exception as e:
            return True, "encoder raised %r" % (e,)
        problems = []
        if len(frames) != expected_frames(n):
            problems.append("%d frames, expected %d" % (len(frames), expected_frames(n)))
        data = b""
        for i, fr in enumerate(frames):
            if len(fr) > 8:
                problems.append("frame %d has %d bytes" % (i, len(fr)))
            if not fr or fr[0] != ((seq << 5) | i):
                problems.append("frame %d header %r" % (i, fr[:1]))
            body = fr[2:] if i == 0 else fr[1:]
            if i == 0 and (len(fr) < 2 or fr[1] != n):
                problems.append("announced length wrong")
            if i > 0 and not body:
                problems.append("frame %d carries no data" % i)
            data += body
        if data != payload:
            problems.append("frame data is not the payload")
        if enc.sequence_counter != (seq + 1) % 8:
            problems.append("next counter %r" % enc.sequence_counter)
        dec = N.decoder.NMEA2000Decoder()
        calls = []
        dec._call_decode_function = lambda pgn_, pr_, s_, d_, ts_, dat, iso, raw: calls.append(bytes(dat)) or "MSG"
        rets = []
        try:
            for fr in frames:
                rets.append(dec._decode(pgn, 3, 7, 255, TS, bytes(fr[::-1]), b""))
        except Exception as e:
            return True, "decoder raised %r" % (e,)
        if any(x is not None for x in rets[:-1]) or rets[-1:] != ["MSG"] or len(calls) != 1 or calls[0][::-1] != payload:
            problems.append("delivery: returns %r, delivered %r" % (rets, [c[::-1].hex() for c in calls]))
        return bool(problems), "; ".join(problems)
    if r["kind"] == "history":
        enc = N.encoder.NMEA2000Encoder()
        enc.sequence_counter = r["seq"]
        dec = N.decoder.NMEA2000Decoder()
        calls = []
        dec._call_decode_function = lambda pgn_, pr_, s_, d_, ts_, dat, iso, raw: calls.append((pgn_, bytes(dat))) or "MSG"
        problems = []
        try:
            for k, which in enumerate(r["order"]):
                pgn = r["pgns"][which]
                pl = bytes.fromhex(r["payloads"][k])
                rets = [dec._decode(pgn, 3, 7, 255, TS, bytes(fr[::-1]), b"") for fr in segment(N, enc, pgn, 3, 7, 255, pl)]
                if any(x is not None for x in rets[:-1]) or rets[-1] != "MSG" or len(calls) != k + 1 or calls[-1] != (pgn, pl[::-1]):
                    problems.append("message %d: returns %r" % (k, rets))
                    break
        except Exception as e:
            return True, "raised %r" % (e,)
        return bool(problems), "; ".join(problems)
    return None, "unknown"
