"""C06 - every gateway wire format round-trips and obeys its fixed framing.
The four real encoders and decoders run on symbolic payload bytes (every data length 0..8, and fast-packet payloads
whose last frame is short) and symbolic addressing; framing lengths, CRLF discipline, the USB checksum
(including every single-byte corruption at every checked position) and the transported frame are QF_BV proofs."""
import os
from datetime import datetime
import z3

from . import loader, wire, textsym
from .common import Report, guarded, merge_part
from .db import db
from .explorer import explore, prove, satisfiable, Unsupported, EX
from .proxies import SymInt, SymBytes, truth, int_from_bytes
from .c03 import pick_fast_pgns

PID = "C06"
_G = {}
FMTS = ("ebyte", "usb", "yacht", "actisense")


def build(R, pgn, n, S, D_, Pr):
    """message object whose encoded payload is n symbolic bytes (the per-PGN encoder is replaced: its output is C02/C09's subject)"""
    m = R.message.NMEA2000Message(PGN=pgn, id="x", description="x")
    m.add_data(SymInt(z3.ZeroExt(1, S), 8), SymInt(z3.ZeroExt(1, D_), 8), SymInt(z3.ZeroExt(1, Pr), 3), wire.TS, None, False, b"")
    return m


@guarded
def _worker(job):
    from . import explorer
    explorer.STATS.__init__()
    R = _G["R"]
    rep = Report(PID, _G["tier"], 0, "other")
    fmt, pgn, n, fast = job
    S, D_, Pr = z3.BitVec("src", 8), z3.BitVec("dst", 8), z3.BitVec("prio", 3)
    pay = SymBytes.var("p", n)
    seqv = z3.BitVec("seq", 3)

    def wit(m):
        return {"kind": "frame", "fmt": fmt, "pgn": pgn, "n": n, "src": m.eval(S, True).as_long(), "dst": m.eval(D_, True).as_long(),
                "prio": m.eval(Pr, True).as_long(), "payload": pay.concrete(m).hex(), "seq": m.eval(seqv, True).as_long()}

    def h():
        enc = R.encoder.NMEA2000Encoder()
        enc.sequence_counter = SymInt(z3.ZeroExt(1, seqv), 3)
        enc._call_encode_function = lambda msg: pay
        m = build(R, pgn, n, S, D_, Pr)
        pks = wire.encode_packets(R, enc, fmt, m)
        dec = R.decoder.NMEA2000Decoder()
        rec = []
        dec._decode = lambda pgn_, prio, src, dst, ts, data, raw, combined=False: rec.append((pgn_, prio, src, dst, data, combined))
        for pk in pks:
            wire.decode_packet(dec, fmt, pk)
        return pks, rec
    try:
        paths, ex = explore(h, max_paths=64)
    except Unsupported as e:
        rep.inconc("%r: %s" % (job, e))
        return dict(violations=[], inconclusive=rep.inconclusive, errors=[], samples=[], stats=explorer.STATS)
    for pa in paths:
        st0, m0 = satisfiable(pa.cond())
        if st0 != "sat":
            continue
        if pa.kind != "return":
            rep.violation({"kind": "wire-raises", "fmt": fmt}, "%s: encode/decode raised %r (n=%d)" % (fmt, pa.value, n), wit(m0))
            continue
        pks, rec = pa.value
        claims = []
        problem = None
        # the frames the encoder must transport
        if fmt == "actisense":
            frames = [list(pay)]            # whole payload, pre-assembled
        elif fast:
            frames = []
            pos = 0
            idx = 0
            while True:
                hdr = (SymInt(z3.ZeroExt(1, seqv), 3) << 5) | idx
                body = list(pay[pos:pos + (6 if idx == 0 else 7)])
                pos += len(body)
                frames.append([hdr] + ([n] if idx == 0 else []) + body)
                idx += 1
                if pos >= n:
                    break
        else:
            frames = [list(pay)]
        if len(pks) != len(frames) or len(rec) != len(frames):
            problem = "%d packets / %d decoded frames for %d frames" % (len(pks), len(rec), len(frames))
        else:
            for pk, fr, (pg_, prio, src, dst, data, comb) in zip(pks, frames, rec):
                # framing
                if fmt == "ebyte" and len(pk) != 13:
                    problem = "EByte packet of %d bytes for a %d-byte frame (must be 13)" % (len(pk), len(fr))
                    break
                if fmt == "usb":
                    if len(pk) != 20:
                        problem = "USB packet of %d bytes" % len(pk)
                        break
                    ssum = 0
                    for b in list(pk[2:19]):
                        ssum = ssum + b
                    claims.append(truth(SymInt.lift(pk[19]) == (SymInt.lift(ssum) & 0xFF)))
                    claims.append(truth(SymInt.lift(pk[0]) == 0xAA))
                    claims.append(truth(SymInt.lift(pk[1]) == 0x55))
                if fmt == "yacht":
                    items = list(pk)
                    if len(items) < 3:
                        problem = "short line"
                        break
                    claims.append(truth(SymInt.lift(items[-2]) == 13))
                    claims.append(truth(SymInt.lift(items[-1]) == 10))
                    for b in items[:-2]:
                        claims.append(z3.And(truth(SymInt.lift(b) != 13), truth(SymInt.lift(b) != 10)))
                # transported frame
                if len(data) != len(fr):
                    problem = "decoder sees %d data bytes of a %d-byte frame" % (len(data), len(fr))
                    break
                for q in range(len(fr)):
                    claims.append(truth(SymInt.lift(data[len(fr) - 1 - q]) == SymInt.lift(fr[q])))
                exp_dst = SymInt(z3.ZeroExt(1, D_), 8) if wire.expected_dst(fmt, pgn, 0) == 0 else 255
                claims += [truth(SymInt.lift(pg_) == pgn), truth(SymInt.lift(prio) == SymInt(z3.ZeroExt(1, Pr), 3)),
                           truth(SymInt.lift(src) == SymInt(z3.ZeroExt(1, S), 8)), truth(SymInt.lift(dst) == exp_dst)]
                if bool(comb) != (fmt == "actisense"):
                    problem = "already_combined flag %r" % (comb,)
                    break
        if problem:
            rep.violation({"kind": "wire-framing", "fmt": fmt, "what": problem.split(" ")[0]}, "%s n=%d: %s" % (fmt, n, problem), wit(m0))
            continue
        st, m = prove(z3.And(*claims), pa.pc, label="wire/%s" % fmt)
        if st == "sat":
            rep.violation({"kind": "wire-content", "fmt": fmt}, "%s n=%d: framing bytes / checksum / transported frame wrong" % (fmt, n), wit(m))
        elif st == "unknown":
            rep.inconc("%r undecided" % (job,))
        # USB: every single-byte corruption at positions 2..19 is rejected
        if fmt == "usb":
            for pk in pks:
                for pos in range(2, 20):
                    dv = z3.BitVec("delta", 8)
                    bad = list(pk)
                    bad[pos] = (SymInt.lift(bad[pos]) + SymInt(z3.ZeroExt(1, dv), 8)) & 0xFF
                    badpk = SymBytes(bad)

                    def hc():
                        dec = R.decoder.NMEA2000Decoder()
                        rec2 = []
                        dec._decode = lambda *a, **k: rec2.append(a)
                        r = dec.decode_usb(badpk)
                        return r, len(rec2)
                    cps, cex = explore(hc, max_paths=16, assumptions=list(pa.pc) + [dv != 0])
                    for cp in cps:
                        if cp.kind == "raise":
                            continue
                        accepted = cp.kind == "return" and (cp.value[1] > 0)
                        if accepted:
                            stc, mc = satisfiable(z3.And(cp.cond(), dv != 0, *pa.pc))
                            if stc == "sat":
                                w = wit(mc)
                                w.update(kind="corrupt", pos=pos, delta=mc.eval(dv, True).as_long())
                                rep.violation({"kind": "usb-corruption-accepted", "pos": pos},
                                              "USB packet with byte %d changed by %d is still accepted" % (pos, w["delta"]), w)
                            elif stc == "unknown":
                                rep.inconc("usb corruption pos %d undecided" % pos)
    rep.sample({"format": fmt, "pgn": pgn, "payload_bytes": n, "fast": fast, "paths": len(paths)})
    return dict(violations=rep.violations, inconclusive=rep.inconclusive, errors=rep.harness_errors, samples=rep.samples[:1], stats=explorer.STATS)


@guarded
def _public_worker(job):
    """whole public path for one encodable sample definition: decode(payload) -> encode_F -> decode_F: same fields"""
    from . import explorer
    from .c01 import Harness, layout
    from .numkernel import eq_term
    explorer.STATS.__init__()
    rep = Report(PID, _G["tier"], 0, "other")
    fmt, k = job
    H = _G["H"]
    R = H.R
    D = _G["D"]
    p, base = wire.header_samples(R, every=_G["tier"] == "thorough")[k]
    S, D_, Pr, D0 = z3.BitVec("src", 8), z3.BitVec("dst", 8), z3.BitVec("prio", 3), z3.BitVec("pre_dst", 8)

    def h():
        # prelude: the same kind of message to ANOTHER (symbolic) destination from an earlier encoder instance - nothing an
        # encoder did before may leak into the packets of this message (process-wide memoisation of headers, seeded C06-i)
        m_pre = wire.make_message(R, p, base, SymInt(z3.ZeroExt(1, S), 8), SymInt(z3.ZeroExt(1, D0), 8), SymInt(z3.ZeroExt(1, Pr), 3))
        wire.encode_packets(R, R.encoder.NMEA2000Encoder(), fmt, m_pre)
        m = wire.make_message(R, p, base, SymInt(z3.ZeroExt(1, S), 8), SymInt(z3.ZeroExt(1, D_), 8), SymInt(z3.ZeroExt(1, Pr), 3))
        enc = R.encoder.NMEA2000Encoder()
        pks = wire.encode_packets(R, enc, fmt, m)
        dec = R.decoder.NMEA2000Decoder()
        out = None
        for pk in pks:
            out = wire.decode_packet(dec, fmt, pk)
        # the same message once more from a second, fresh encoder (same sequence counter) through the SAME decoder
        out2 = None
        for pk in wire.encode_packets(R, R.encoder.NMEA2000Encoder(), fmt, m):
            out2 = wire.decode_packet(dec, fmt, pk)
        return m, out, out2
    try:
        paths, ex = explore(h, max_paths=64)
    except Unsupported as e:
        rep.inconc("public path %s/%s: %s" % (fmt, p.id, e))
        return dict(violations=[], inconclusive=rep.inconclusive, errors=[], samples=[], stats=explorer.STATS)
    nret = 0
    for pa in paths:
        st0, m0 = satisfiable(pa.cond())
        if st0 != "sat":
            continue

        def w(mm):
            return {"kind": "public", "fmt": fmt, "sample": k, "every": _G["tier"] == "thorough", "src": mm.eval(S, True).as_long(), "dst": mm.eval(D_, True).as_long(), "prio": mm.eval(Pr, True).as_long(), "pre_dst": mm.eval(D0, True).as_long()}
        if pa.kind != "return" or pa.value[1] is None:
            rep.violation({"kind": "public-path-lost", "fmt": fmt, "def": p.id}, "%s: %s message not returned after encode->decode (%r)" % (fmt, p.id, pa.value if pa.kind != "return" else None), w(m0))
            continue
        nret += 1
        m, out, out2 = pa.value
        if out2 is None:
            rep.violation({"kind": "public-path-second-message", "fmt": fmt, "def": p.id}, "%s: %s sent a second time (by a second encoder, same sequence counter) to the same decoder is not returned" % (fmt, p.id), w(m0))
            continue
        cl0 = [z3.BoolVal(out.PGN == m.PGN and out.id == m.id and len(out.fields) == len(m.fields) and out2.id == m.id and len(out2.fields) == len(m.fields))]
        for fa, fb, fc in zip(m.fields, out.fields, out2.fields):
            cl0.append(z3.BoolVal(fa.id == fb.id))
            cl0.append(eq_term(fa.value, fb.value))
            cl0.append(eq_term(fa.raw_value, fb.raw_value))
            cl0.append(eq_term(fa.raw_value, fc.raw_value))
        st, mm = prove(z3.And(*cl0), list(pa.pc), label="public-fields/%s" % fmt)
        if st == "sat":
            rep.violation({"kind": "public-path-differs", "fmt": fmt, "def": p.id}, "%s: %s fields differ after encode->decode" % (fmt, p.id), w(mm))
            continue
        exp_dst = SymInt(z3.ZeroExt(1, D_), 8) if wire.expected_dst(fmt, p.pgn, 0) == 0 else 255
        cl = [eq_term(out.source, SymInt(z3.ZeroExt(1, S), 8)), eq_term(out.priority, SymInt(z3.ZeroExt(1, Pr), 3)), eq_term(out.destination, exp_dst)]
        st, mm = prove(z3.And(*cl), list(pa.pc), label="public/%s" % fmt)
        if st == "sat":
            rep.violation({"kind": "public-path-differs", "fmt": fmt, "def": p.id}, "%s: %s addressing differs after encode->decode" % (fmt, p.id), w(mm))
    if nret == 0:
        rep.inconc("public path %s/%s: no returning path" % (fmt, p.id))
    return dict(violations=rep.violations, inconclusive=rep.inconclusive, errors=rep.harness_errors, samples=[], stats=explorer.STATS)


def run(tier, seed):
    import multiprocessing as mp
    from . import explorer
    from .c01 import Harness
    rep = Report(PID, tier, seed, "other")
    D = db()
    H = Harness()
    R = H.R
    fastp = pick_fast_pgns(D)[0]
    single_pdu1, single_pdu2 = 59904, 127250
    _G.update(R=R, D=D, tier=tier, H=H)
    rep.functions = ["encoder.encode_ebyte / encode_usb / encode_yacht_devices / encode_actisense / _encode / _encode_fast_message / _build_header",
                     "decoder.decode_tcp / decode_usb / decode_yacht_devices_string / decode_actisense_string / _extract_header",
                     "utils.calculate_canbus_checksum"]
    rep.bounds = {"single-frame data length": "every length 1..8, symbolic bytes", "fast-packet payloads": "9, 13, 14, 20, 27 bytes (short and full last frames)" if tier == "quick" else "every length 9..50 and 100, 111, 216, 217, 222, 223",
                  "public path": "4 sample definitions (PDU1/PDU2 x single/fast)" if tier == "quick" else "one in-range payload of every encodable definition, symbolic addressing",
                  "addressing": "symbolic source, destination, priority", "corruption": "every position 2..19 x every non-zero delta (symbolic)"}
    rep.stubs = ["_call_encode_function returns n symbolic bytes in the framing harness (codec = C02/C09)", "_decode replaced by a recorder",
                 "receive-side prefixes prepended: '%s' (Yacht Devices), '%s' (Actisense)" % (wire.YD_PREFIX, wire.ACT_PREFIX)]
    rep.outside = ["serial-port level behaviour", "marker bytes inside USB packets (C20)", "receive-path segmentations with more than one cut (C12)"]
    jobs = []
    for fmt in FMTS:
        for n in range(1, 9):
            jobs.append((fmt, single_pdu2 if n % 2 else single_pdu1, n, False))
        for n in ((9, 13, 14, 20, 27) if tier == "quick" else tuple(range(9, 51)) + (100, 111, 216, 217, 222, 223)):
            jobs.append((fmt, fastp, n, True))
    pub = [(fmt, k) for fmt in FMTS for k in range(len(wire.header_samples(R, every=tier == "thorough")))]
    from .common import run_jobs
    run_jobs(rep, _worker, jobs, timeout_s=300 if tier == "quick" else 3000)
    run_jobs(rep, _public_worker, pub, timeout_s=300 if tier == "quick" else 3000)
    # (R) a concatenation of packets is split back into the same packets by the matching receive path: the four clients' real
    # receive loops on streams of encoder packets cut at every position (the harness of C12, one cut per run)
    from . import c12, aio
    c12._G.update(R=loader.load(with_io=True), tier=tier)
    rparts = run_jobs(rep, c12._worker, [(c, "cut1") for c in aio.CLIENTS], timeout_s=600)
    rep.count("receive_path_split_runs", sum(p_.get("n", 0) for p_ in rparts if p_))
    rep.count("framing_jobs", len(jobs))
    rep.count("public_path_jobs", len(pub))
    rep.coverage.update(explanation="bounded symbolic verification of the four wire formats: %d framing jobs (format x data length) with symbolic bytes and addressing, "
                                    "USB single-byte corruption at 18 positions x all deltas, %d public-path round trips" % (len(jobs), len(pub)))
    rep.assumptions = ["0 <= source, destination < 256, 0 <= priority < 8"]
    return rep.finish(replay)


def replay(r):
    if r.get("kind") == "delivery":
        from . import c12
        return c12.replay(r)
    from .plain import plain
    N = plain()
    if r["kind"] in ("frame", "corrupt"):
        fmt, pgn, n = r["fmt"], r["pgn"], r["n"]
        pay = bytes.fromhex(r["payload"])
        enc = N.encoder.NMEA2000Encoder()
        enc.sequence_counter = r["seq"]
        enc._call_encode_function = lambda msg: pay
        m = N.message.NMEA2000Message(PGN=pgn, id="x", description="x")
        m.add_data(r["src"], r["dst"], r["prio"], wire.TS, None, False, b"")
        try:
            pks = wire.encode_packets(N, enc, fmt, m)
        except Exception as e:
            return True, "encoder raised %r" % (e,)
        dec = N.decoder.NMEA2000Decoder()
        rec = []
        dec._decode = lambda pgn_, prio, src, dst, ts, data, raw, combined=False: rec.append((pgn_, prio, src, dst, bytes(data)))
        if r["kind"] == "corrupt":
            pk = bytearray(pks[0])
            pk[r["pos"]] = (pk[r["pos"]] + r["delta"]) & 0xFF
            try:
                dec.decode_usb(bytes(pk))
            except Exception:
                return False, "rejected with an exception"
            return len(rec) > 0, "corrupted packet %s accepted" % bytes(pk).hex()
        problems = []
        is_fast = N.decoder.NMEA2000Decoder._isFastPGN(pgn) and fmt != "actisense"
        try:
            for pk in pks:
                if fmt == "ebyte" and len(pk) != 13:
                    problems.append("EByte packet %s has %d bytes" % (pk.hex(), len(pk)))
                if fmt == "usb" and (len(pk) != 20 or pk[19] != sum(pk[2:19]) & 0xFF):
                    problems.append("USB packet %s malformed" % pk.hex())
                if fmt == "yacht" and (not pk.endswith(b"\r\n") or b"\r" in pk[:-2] or b"\n" in pk[:-2]):
                    problems.append("Yacht Devices line %r" % pk)
                wire.decode_packet(dec, fmt, pk)
        except Exception as e:
            return True, "raised %r" % (e,)
        got = b"".join(x[4][::-1][(1 if (is_fast and i) else (2 if is_fast else 0)):] for i, x in enumerate(rec))
        if got[:n] != pay or len(got) < n:
            problems.append("transported data %s, sent %s" % (got.hex(), pay.hex()))
        for x in rec:
            if x[:4] != (pgn, r["prio"], r["src"], wire.expected_dst(fmt, pgn, r["dst"])):
                problems.append("addressing %r" % (x[:4],))
        return bool(problems), "; ".join(problems[:3])
    if r["kind"] == "public":
        import importlib
        importlib.reload(N.encoder)     # process-wide encoder state starts empty for every replay
        fmt = r["fmt"]
        p, base = wire.header_samples(N, every=bool(r.get("every")))[r["sample"]]
        m = wire.make_message(N, p, base, r["src"], r["dst"], r["prio"])
        try:
            if "pre_dst" in r:
                wire.encode_packets(N, N.encoder.NMEA2000Encoder(), fmt, wire.make_message(N, p, base, r["src"], r["pre_dst"], r["prio"]))
            pks = wire.encode_packets(N, N.encoder.NMEA2000Encoder(), fmt, m)
            dec = N.decoder.NMEA2000Decoder()
            out = None
            for pk in pks:
                out = wire.decode_packet(dec, fmt, pk)
            out2 = None
            for pk in wire.encode_packets(N, N.encoder.NMEA2000Encoder(), fmt, m):
                out2 = wire.decode_packet(dec, fmt, pk)
        except Exception as e:
            return True, "raised %r" % (e,)
        if out is None:
            return True, "no message after encode->decode"
        if out2 is None or [(f.id, f.raw_value) for f in out2.fields] != [(f.id, f.raw_value) for f in m.fields]:
            return True, "the same message from a second encoder through the same decoder: %r" % (None if out2 is None else [(f.id, f.raw_value) for f in out2.fields][:4],)
        same = out.PGN == m.PGN and out.id == m.id and [(f.id, f.value, f.raw_value) for f in out.fields] == [(f.id, f.value, f.raw_value) for f in m.fields] \
            and (out.source, out.priority, out.destination) == (r["src"], r["prio"], wire.expected_dst(fmt, p.pgn, r["dst"]))
        return not same, "got src/prio/dst %r fields %r" % ((out.source, out.priority, out.destination), [(f.id, f.value) for f in out.fields][:3])
    return None, "unknown"
