"""C12 - gateway clients deliver every decodable frame once, in order, for any chunking.
The real receive path of each client (_receive_loop, _receive_impl, _process_queue with the real asyncio
StreamReader and Queue) runs on the virtual loop; the explorer enumerates the stream (packet kinds), the
segmentation into reads (every single cut position, byte-wise, fixed chunk sizes, cuts inside headers / line endings
/ the start marker) and the behaviour of the receive callback (returns, raises, is slow).  Oracle: the messages a
plain decoder returns for the stream's packets, once each, in wire order."""
import asyncio

from . import loader, aio
from .common import Report, guarded, run_jobs
from .explorer import EX, Unsupported, explore_iter

PID = "C12"
_G = {}
KINDS = ("valid", "valid2", "valid_t", "valid_aa55", "fast_first", "unknown_pgn", "unsupported", "malformed", "rejected", "noise", "blank")
CBK = ("ok", "raises", "slow")


def packet(N, client, kind, src):
    from datetime import datetime
    dec = N.decoder.NMEA2000Decoder()
    enc = N.encoder.NMEA2000Encoder()
    ts = datetime(2020, 1, 1)

    def wrap(m_or_frame, pgn=None):
        return m_or_frame
    if kind == "valid_t":
        # Yacht Devices RAW: a line with the other direction marker (the gateway's echo of a transmitted frame) is a frame too
        pk = packet(N, client, "valid", src)
        return pk.replace(b" R ", b" T ", 1) if client == "yacht" else pk
    if kind == "valid_aa55":
        # a valid frame whose data bytes contain the serial start marker AA 55 (SID 0xAA, heading low byte 0x55)
        m = dec._decode(127250, 2, src, 255, ts, bytes([0xAA, 0x55, 0x27, 0xFF, 0x7F, 0xFF, 0x7F, 0xFD])[::-1], b"")
        return _wire(N, enc, client, m)
    if kind in ("valid", "valid2"):
        m = dec._decode(127250 if kind == "valid" else 127251, 2, src, 255, ts,
                        (bytes([src, 0x10, 0x27, 0xFF, 0x7F, 0xFF, 0x7F, 0xFD]) if kind == "valid" else bytes([src, 0x10, 0x27, 0, 0, 0xFF, 0xFF, 0xFF]))[::-1], b"")
        return _wire(N, enc, client, m)
    if kind == "rejected":
        # well-formed packet of a known PGN whose heading is outside the database range: the decoder raises for it
        m = dec._decode(127250, 2, src, 255, ts, bytes([src, 0x10, 0x27, 0xFF, 0x7F, 0xFF, 0x7F, 0xFD])[::-1], b"")
        m.get_field_by_id("heading").value = 6.5534
        return _wire(N, enc, client, m)
    if kind == "fast_first":
        pay = bytes([1, 0, 5, 0x64] + [0xFF] * 7)
        m = dec._decode(127506, 3, src, 255, ts, pay[::-1], b"", True)
        pk = _wire_all(N, enc, client, m)
        return pk[0]                 # only the first frame: decodes to nothing
    if kind == "unknown_pgn":
        m = dec._decode(127250, 2, src, 255, ts, bytes([src, 0x10, 0x27, 0xFF, 0x7F, 0xFF, 0x7F, 0xFD][::-1]), b"")
        m.PGN = 127250
        raw = bytearray(_wire(N, enc, client, m))
        # turn the PGN into one the database does not know (0x1F2FF)
        if client == "ebyte":
            raw[2], raw[3] = 0xF2, 0xFF
        elif client == "waveshare":
            raw[6], raw[7] = 0xFF, 0xF2
            raw[19] = sum(raw[2:19]) & 0xFF
        elif client == "yacht":
            raw = bytearray(raw.replace(b"F112", b"F2FF", 1))
        else:
            raw = bytearray(raw.replace(b"1F112", b"1F2FF", 1))
        return bytes(raw)
    if kind == "unsupported":
        # PGN 65240 (ISO commanded address): the library knows the PGN but has no support for its transport type and
        # raises a plain Exception for it - neither a value nor a framing error
        m = dec._decode(127250, 2, src, 255, ts, bytes([src, 0x10, 0x27, 0xFF, 0x7F, 0xFF, 0x7F, 0xFD][::-1]), b"")
        raw = bytearray(_wire(N, enc, client, m))
        if client == "ebyte":
            raw[1], raw[2], raw[3] = 0x08, 0xFE, 0xD8
        elif client == "waveshare":
            raw[6], raw[7], raw[8] = 0xD8, 0xFE, 0x08
            raw[19] = sum(raw[2:19]) & 0xFF
        elif client == "yacht":
            raw = bytearray(raw.replace(b"09F112", b"08FED8", 1))
        else:
            raw = bytearray(raw.replace(b"1F112", b"0FED8", 1))
        return bytes(raw)
    if kind == "malformed":
        if client == "ebyte":
            return bytes([0x8F] + [0xFF] * 12)           # length nibble 15, nonsense identifier
        if client == "waveshare":
            pk = bytearray(_wire(N, enc, client, dec._decode(127250, 2, src, 255, ts, bytes([src, 0x10, 0x27, 0xFF, 0x7F, 0xFF, 0x7F, 0xFD][::-1]), b"")))
            pk[19] ^= 0x33                                 # bad checksum
            return bytes(pk)
        return b"this is not a frame\r\n"
    if kind == "noise":
        # stray bytes in front of the next packet (serial line: the tail of a packet that lost bytes); text: a garbage line
        if client == "waveshare":
            return b"\x01\x02\x03"
        if client == "ebyte":
            return b""          # the EByte link is framed by byte count only: stray bytes are not part of its contract
        return b"\x01\x02\x03\r\n"
    if kind == "blank":
        if client in ("actisense", "yacht"):
            return b"\r\n"
        return b""
    raise ValueError(kind)


def _wire_all(N, enc, client, m):
    if client == "ebyte":
        return list(enc.encode_ebyte(m))
    if client == "waveshare":
        return list(enc.encode_usb(m))
    if client == "yacht":
        return [b"00:00:00.000 R " + x for x in enc.encode_yacht_devices(m)]
    return [("A000000.000 " + enc.encode_actisense(m) + "\r\n").encode()]


def _wire(N, enc, client, m):
    return _wire_all(N, enc, client, m)[0]


def oracle(N, client, packets):
    dec = N.decoder.NMEA2000Decoder()
    out = []
    for pk in packets:
        if not pk:
            continue
        try:
            if client == "ebyte":
                m = dec.decode_tcp(pk)
            elif client == "waveshare":
                m = dec.decode_usb(pk)
            elif client == "yacht":
                m = dec.decode_yacht_devices_string(pk.decode("utf-8", errors="ignore").strip())
            else:
                m = dec.decode_actisense_string(pk.decode("utf-8", errors="ignore").strip())
        except Exception:
            m = None
        if m is not None:
            out.append((m.PGN, m.source))
    return out


def segment(stream, mode, a=0, b=0, c=0):
    if mode == "whole":
        return [stream]
    if mode == "bytewise":
        return [stream[i:i + 1] for i in range(len(stream))]
    if mode.startswith("chunk"):
        n = int(mode[5:])
        return [stream[i:i + n] for i in range(0, len(stream), n)]
    if mode == "cut1":
        return [stream[:a], stream[a:]]
    if mode == "cut2":
        return [stream[:a], stream[a:b], stream[b:]]
    if mode == "cut3":
        return [stream[:a], stream[a:b], stream[b:c], stream[c:]]
    raise ValueError(mode)


def scenario(R, N, client, kinds, seg, cb_beh):
    tr = {"got": [], "states": [], "cb_calls": 0}
    packets = [packet(N, client, k, 10 + i % 200) for i, k in enumerate(kinds)]
    stream = b"".join(packets)
    chunks = [c for c in segment(stream, *seg) if c]

    async def main(loop):
        async def open_connection(host, port):
            r = asyncio.StreamReader()
            t = 0.1
            for ch in chunks:
                loop.call_later(t, r.feed_data, ch)
                t += 0.05
            return r, aio.FakeWriter([], 0)
        aio.install(R, open_connection)
        c = aio.make_client(R, client)

        async def rx(m):
            i = tr["cb_calls"]
            tr["cb_calls"] += 1
            tr["got"].append((m.PGN, m.source) if hasattr(m, "PGN") else repr(m))      # anything that is not a message is recorded as such
            beh = cb_beh[i] if i < len(cb_beh) else "ok"
            if beh == "raises":
                raise RuntimeError("callback failed")
            if beh == "slow":
                await asyncio.sleep(0.7)

        async def st(s):
            tr["states"].append(s.name)
        c.set_receive_callback(rx)
        c.set_status_callback(st)
        await c.connect()
        await asyncio.sleep(0.2 + 0.05 * len(chunks) + 4.0)
        tr["final"] = c.state.name
        await c.close()
        tr["expected"] = oracle(N, client, packets)
        tr["stream"] = stream.hex()
        return tr
    return main


def judge(tr, res, env):
    if env.livelock:
        return ["event loop starved"]
    if isinstance(res, BaseException):
        return ["scenario ended with %r" % (res,)]
    problems = []
    if tr["got"] != tr["expected"]:
        problems.append("callback received %r, a decoder returns %r for the stream's packets" % (tr["got"], tr["expected"]))
    if [s for s in tr["states"] if s != "CLOSED"] != ["CONNECTED"]:
        problems.append("connection disturbed: notifications %r" % (tr["states"],))
    return problems


@guarded
def _worker(job):
    from . import explorer
    from .plain import plain
    explorer.STATS.__init__()
    R = _G["R"]
    N = plain()
    rep = Report(PID, _G["tier"], 0, "fault_enumeration")
    client, part = job
    n = 0
    distinct = set()
    kinds_all = [k for k in KINDS if not (k == "blank" and client in ("ebyte", "waveshare")) and not (k == "noise" and client == "ebyte")]

    def h():
        ex = EX()
        if part == "kinds":
            deep = _G["tier"] == "thorough"
            kinds = tuple(kinds_all[ex.choose(len(kinds_all))] for _ in range(4 if deep else 3))
            segs = (("whole",), ("bytewise",), ("chunk7",), ("chunk21",)) + ((("chunk2",), ("chunk3",), ("chunk13",), ("chunk20",), ("chunk33",)) if deep else ())
            seg = segs[ex.choose(len(segs))]
            cb = (CBK[ex.choose(3)], CBK[ex.choose(3)])
        elif part == "burst":
            # a long burst arriving at once while the first callbacks are slow: a backlog of several hundred decoded messages
            kinds = ("valid", "valid2") * 300
            seg = (("whole",), ("chunk21",))[ex.choose(2)]
            cb = ("slow", "ok")
        elif part == "callbacks":
            # every pattern of returning / raising / slow callbacks over the first four deliveries of an all-valid stream
            kinds = ("valid", "valid2", "valid", "valid2", "valid")
            seg = (("whole",), ("chunk7",))[ex.choose(2)]
            cb = tuple(CBK[ex.choose(3)] for _ in range(4))
        elif part == "cut3":
            kinds = (("valid", "valid2", "valid"), ("malformed", "valid", "unknown_pgn", "valid2"), ("valid", "rejected", "valid2"))[ex.choose(3)]
            total = len(b"".join(packet(N, client, k, 10 + i % 200) for i, k in enumerate(kinds)))
            a = 1 + ex.choose(total - 3)
            b = a + 1 + ex.choose(min(2, total - a - 2))
            c_ = b + 1 + ex.choose(min(2, total - b - 1))
            seg = ("cut3", a, b, c_)
            cb = ("ok", "ok")
        else:
            kinds = (("valid", "valid2", "valid"), ("malformed", "valid", "unknown_pgn", "valid2"), ("fast_first", "valid", "valid2"), ("valid", "rejected", "valid2"), ("valid", "unsupported", "valid2"), ("valid", "noise", "valid2", "valid"), ("valid", "valid_aa55", "valid2"))[ex.choose(7)]
            total = len(b"".join(packet(N, client, k, 10 + i % 200) for i, k in enumerate(kinds)))
            a = 1 + ex.choose(total - 1)
            if part == "cut1":
                seg = ("cut1", a, 0)
            else:
                b = a + 1 + ex.choose(min(3, total - a - 1)) if total - a - 1 > 0 else a
                seg = ("cut2", a, b)
            cb = ("ok", "ok")
        res, env = aio.run(scenario(R, N, client, kinds, seg, cb))
        return kinds, seg, cb, res, env
    try:
        for pa, ex in explore_iter(h, max_paths=200000, fuel=10 ** 9):
            n += 1
            if pa.kind != "return":
                rep.error("%r: path raised %r" % (job, pa.value))
                continue
            kinds, seg, cb, res, env = pa.value
            distinct.add((kinds, seg, cb))
            pr = judge(res if isinstance(res, dict) else {}, res, env) if isinstance(res, (dict, BaseException)) else ["no trace"]
            if pr:
                rep.violation({"kind": "delivery", "client": client, "seg": seg[0], "what": pr[0].split(" ")[0]},
                              "%s client, stream %s, segmentation %r, callback %r: %s" % (client, list(kinds) if len(kinds) <= 8 else "of %d packets (%s, %s, ...)" % (len(kinds), kinds[0], kinds[1]),
                                                                                    list(seg), list(cb), "; ".join(x[:600] for x in pr[:2])),
                              {"kind": "delivery", "client": client, "kinds": list(kinds), "seg": list(seg), "cb": list(cb)})
            if len(rep.samples) < 1 and isinstance(res, dict):
                rep.sample({"client": client, "stream_kinds": list(kinds), "segmentation": list(seg), "callback": list(cb), "delivered": res["got"]})
    except Unsupported as e:
        rep.inconc("%r: %s" % (job, e))
    return dict(violations=rep.violations, inconclusive=rep.inconclusive, errors=rep.harness_errors, samples=rep.samples, stats=explorer.STATS, n=n, distinct=len(distinct))


def run(tier, seed):
    rep = Report(PID, tier, seed, "fault_enumeration")
    R = loader.load(with_io=True)
    _G.update(R=R, tier=tier)
    rep.functions = ["ioclient.AsyncIOClient._receive_loop / _process_queue", "EByte / Text / WaveShare _receive_impl", "decoder.decode_tcp / decode_usb / decode_*_string",
                     "asyncio.StreamReader.readexactly / readline / read and asyncio.Queue (real stdlib classes)"]
    deep = tier == "thorough"
    rep.bounds = {"stream": "%d packets from %r (all combinations) and four fixed streams of 3-5 packets" % (4 if deep else 3, KINDS),
                  "segmentation": "whole, byte-wise, 7- and 21-byte chunks%s for every kind combination; every single cut position and every pair%s of nearby cut positions for the fixed streams" % (
                      " (thorough: also 2, 3, 13, 20, 33)" if deep else "", " and triple" if deep else ""),
                  "callback": "each of the first two deliveries returns / raises / sleeps 0.7 s; for an all-valid 5-packet stream every pattern over the first four deliveries; "
                              "a burst of 600 packets arriving at once behind a slow first callback", "clients": list(aio.CLIENTS)}
    rep.outside = ["streams longer than 5 packets", "more than three arbitrary cut positions"]
    rep.stubs = ["scripted transport feeding the real StreamReader chunk by chunk on the virtual clock"]
    parts = ("kinds", "cut1", "cut2", "callbacks", "burst", "cut3") if tier == "thorough" else ("kinds", "cut1", "cut2", "callbacks", "burst")
    jobs = [(c, p) for c in aio.CLIENTS for p in parts]
    res = run_jobs(rep, _worker, jobs, timeout_s=800 if tier == "quick" else 4000)
    n = sum(p["n"] for p in res if p and "n" in p)
    dn = sum(p["distinct"] for p in res if p and "distinct" in p)
    rep.coverage.update(evaluations=max(1, n), distinct_nontrivial=max(2, dn), exhaustive=True,
                        rule="one run of the real client per (client, stream, segmentation, callback behaviour); distinct = distinct such tuples")
    return rep.finish(replay)


def replay(r):
    import subprocess
    import sys
    import json
    import os
    code = "import sys, json; sys.path.insert(0, %r); from vf import c12; print(json.dumps(c12.replay_inproc(json.loads(sys.argv[1]))))" % os.path.dirname(os.path.dirname(os.path.abspath(__file__)))
    try:
        out = subprocess.run([sys.executable, "-c", code, json.dumps(r)], capture_output=True, text=True, timeout=60)
    except subprocess.TimeoutExpired:
        return True, "plain client did not finish within 60 s"
    lines = [l for l in out.stdout.splitlines() if l.startswith("{")]
    if not lines:
        return None, "replay subprocess failed: %s" % out.stderr[-300:]
    res = json.loads(lines[-1])
    return bool(res["problems"]), "; ".join(res["problems"][:2])


def replay_inproc(r):
    import types
    import logging
    logging.disable(logging.CRITICAL)
    from .plain import plain
    N = plain(with_io=True)
    Rp = types.SimpleNamespace(ioclient=N.ioclient, decoder=N.decoder, encoder=N.encoder)
    res, env = aio.run(scenario(Rp, N, r["client"], tuple(r["kinds"]), tuple(r["seg"]), tuple(r["cb"])))
    loader.TICK_HOOK[0] = None
    return {"problems": judge(res if isinstance(res, dict) else {}, res, env)}
