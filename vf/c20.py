"""C20 - the serial (USB) stream resynchronises after noise with bounded buffering.
(1) iteration lemma: exactly one iteration of the real receive loop of WaveShareNmea2000Gateway._receive_impl from a
    buffer of N fully symbolic bytes (bytearray.find modelled by forking on the first marker position): it either
    leaves the loop - with no marker in the buffer and at most KEEP_MAX (40) trailing bytes kept (a trailing 0xAA, possibly
    the first half of a marker, is kept), or with the first marker followed by fewer than 20 bytes and the buffer unchanged -
    or it hands exactly buf[start:start+20] to decode_usb, queues the result iff there is one, and continues with
    buf[start+20:].
(2) bound: with (1) as the transition relation, z3 proves over the integers that 'no marker and len <= KEEP_MAX, or first
    marker at s <= 99 + KEEP_MAX with fewer than 20 bytes after it' is preserved by read-and-process for reads of <= 100
    bytes: at most 158 bytes are held between reads, for streams of any length.
(3) checksum: decode_usb on a symbolic 20-byte window reaches the shared decode path only with AA 55 and a matching sum.
(4) resynchronisation: marker-free symbolic noise, then two valid packets, split into reads at explorer-chosen
    positions, through whole _receive_impl calls: both packets are delivered, in order."""
import z3

from . import loader
from .common import Report, guarded, run_jobs
from .explorer import explore, prove, satisfiable, Unsupported, EX
from .proxies import SymInt, SymBytes, truth, register_symbolic, is_symbolic
from . import proxies as P

PID = "C20"
_G = {}
MARK = (0xAA, 0x55)


class StopLoop(BaseException):
    pass


KEEP_MAX = 40       # trailing noise bytes an implementation may hold back when no marker is in sight (two packets' worth)


class SymByteArray(SymBytes):
    """bytearray proxy: concrete length, symbolic content; find(marker) forks on the first position"""

    def __init__(self, items=()):
        self.items = list(items)

    def extend(self, data):
        self.items.extend(list(data))

    def __len__(self):
        return len(self.items)

    def __getitem__(self, i):
        if isinstance(i, slice):
            return SymByteArray(self.items[i])
        return self.items[i]

    def __iter__(self):
        return iter(self.items)

    def find(self, sub, start=0, end=None):
        sub = list(sub)
        n = len(self.items) if end is None else min(end, len(self.items))
        for i in range(start, n - len(sub) + 1):
            cs = [truth(SymInt.lift(self.items[i + k]) == sub[k]) for k in range(len(sub))]
            c = z3.simplify(z3.And(*cs))
            if z3.is_false(c):
                continue
            if z3.is_true(c) or EX().branch(c):
                return i
        return -1

    def _match_at(self, pos, sub):
        sub = list(sub)
        if pos < 0 or pos + len(sub) > len(self.items):
            return False
        if not sub:
            return True
        c = z3.simplify(z3.And(*[truth(SymInt.lift(self.items[pos + k]) == sub[k]) for k in range(len(sub))]))
        if z3.is_false(c):
            return False
        return True if z3.is_true(c) else EX().branch(c)

    def endswith(self, suffix):
        if isinstance(suffix, tuple):
            return any(self.endswith(x) for x in suffix)
        return self._match_at(len(self.items) - len(suffix), suffix)

    def startswith(self, prefix):
        if isinstance(prefix, tuple):
            return any(self.startswith(x) for x in prefix)
        return self._match_at(0, prefix)

    def rfind(self, sub, start=0, end=None):
        n = len(self.items) if end is None else min(end, len(self.items))
        for i in range(n - len(list(sub)), start - 1, -1):
            if self._match_at(i, sub):
                return i
        return -1

    def index(self, sub, *a):
        i = self.find(sub, *a)
        if i < 0:
            raise ValueError("subsection not found")
        return i

    def __contains__(self, x):
        if isinstance(x, (bytes, bytearray)):
            return self.find(x) >= 0
        return self.find([x]) >= 0

    def pop(self, i=-1):
        return self.items.pop(i)

    def __iadd__(self, data):
        self.items.extend(list(data))
        return self

    def hex(self, *a):
        return "<symbolic buffer>"

    def clear(self):
        self.items = []

    def __delitem__(self, i):
        del self.items[i]


register_symbolic(SymByteArray)
P.SymBytes.find = lambda self, sub, *a: SymByteArray(self.items).find(sub, *a)


class FakeQueue:
    def __init__(self):
        self.items = []

    async def put(self, x):
        self.items.append(x)


class FakeReader:
    def __init__(self, chunks):
        self.chunks = list(chunks)

    async def read(self, n):
        return self.chunks.pop(0) if self.chunks else b""


def build_client(M, chunks):
    """the client is built by its own constructor and connected by its own _connect_impl over a stub serial port, so that
    whatever state the class keeps is initialised by the code under test (M: instrumented or plain modules)"""
    from . import aio
    io = M.ioclient
    reader = FakeReader(chunks)

    class _W:
        def write(self, b):
            pass

        async def drain(self):
            return None

        def close(self):
            pass

    async def open_serial_connection(**kw):
        return reader, _W()
    import asyncio as _asyncio

    class _DummyTask:
        def done(self):
            return True

        def cancel(self):
            return False

    class _NoLoop:
        """the constructor starts background tasks; there is no event loop in this harness: they are not started"""

        def create_task(self, coro, **k):
            coro.close()
            return _DummyTask()

        ensure_future = create_task

        def __getattr__(self, k):
            return getattr(_asyncio, k)
    saved = io.__dict__.get("serial_asyncio")
    saved_aio = io.__dict__.get("asyncio")
    io.serial_asyncio = aio.SerialShim(open_serial_connection)
    io.asyncio = _NoLoop()
    try:
        c = io.WaveShareNmea2000Gateway("/dev/null")
        drive(c._connect_impl())
    finally:
        if saved is not None:
            io.serial_asyncio = saved
        if saved_aio is not None:
            io.asyncio = saved_aio
    c._state = M.ioclient.State.CONNECTED
    c.queue = FakeQueue()
    c.reader = reader
    return c


def held_bytes(c):
    """bytes the client holds back between reads: every bytes-like attribute of the client object"""
    return sum(len(v) for v in vars(c).values() if isinstance(v, (bytes, bytearray, SymBytes)))


def make_client(R, buf, chunks):
    c = build_client(R, chunks)
    c._buffer = buf
    c.decoder = R.decoder.NMEA2000Decoder()
    calls = []

    def rec(packet):
        calls.append(packet)
        return ("MSG", len(calls))
    c.usb_calls = calls
    return c, calls


def drive(coro):
    try:
        coro.send(None)
    except StopIteration:
        return
    raise Unsupported("receive coroutine suspended unexpectedly")


def one_iteration(R, content):
    """run exactly one iteration of the real loop; returns (outcome, client, decode_usb calls)"""
    # the buffer holds all but the last byte; the (non-empty) read delivers the last one
    if not content:
        raise Unsupported("empty read is end of stream, not an iteration")
    c, calls = make_client(R, SymByteArray(content[:-1]), [SymBytes(content[-1:])])
    seen = []
    oracle_log = []
    c.oracle_log = oracle_log
    orig = c.decoder.decode_usb

    def dec_usb(packet):
        # the window check itself is obligation (3); here decode_usb is an oracle that either yields a message or not
        ch = EX().choose(3)
        seen.append(packet)
        oracle_log.append(ch)
        if ch == 1:
            results.append(packet)
            return ("MSG", len(results))
        if ch == 2:
            raise ValueError("decoder rejects this window")       # a window whose content the PGN decoder raises on
        return None
    results = []

    def fake_decode(pgn, prio, src, dst, ts, data, raw, combined=False):
        results.append((pgn, prio, src, dst, data))
        return ("MSG", len(results))
    c.decoder.decode_usb = dec_usb
    c.decoder._decode = fake_decode
    ticks = [0]

    def hook():
        ticks[0] += 1
        if ticks[0] >= 2:
            raise StopLoop()
    loader.TICK_HOOK[0] = hook
    try:
        drive(c._receive_impl())
        outcome = "exit"
    except StopLoop:
        outcome = "continue"
    finally:
        loader.TICK_HOOK[0] = None
    return outcome, c, seen, results


@guarded
def _iter_worker(Ns):
    from . import explorer
    explorer.STATS.__init__()
    R = _G["R"]
    rep = Report(PID, _G["tier"], 0, "model_checking")
    states = 0
    for N in Ns:
        content = [SymInt.var("b%d" % i, 8) for i in range(N)]

        cur = {"oracle": []}

        def h():
            outcome, c, seen, results = one_iteration(R, content)
            cur["oracle"] = list(c.oracle_log)
            return outcome, c._buffer, seen, list(c.queue.items), results, list(c.oracle_log)

        def wit(m):
            # oracle: what decode_usb did for the window(s) of this path (0 nothing, 1 a message, 2 raised)
            return {"kind": "iteration", "buffer": bytes(m.eval(b.t, True).as_long() & 0xFF for b in content).hex(), "oracle": list(cur["oracle"])}
        try:
            paths, ex = explore(h, max_paths=4096)
        except Unsupported as e:
            rep.inconc("N=%d: %s" % (N, e))
            continue
        states += len(paths)
        for pa in paths:
            st0, m0 = satisfiable(pa.cond())
            if st0 != "sat":
                continue
            if pa.kind != "return":
                rep.violation({"kind": "iteration-raises"}, "N=%d: receive loop raised %r" % (N, pa.value), wit(m0))
                continue
            outcome, buf, seen, queued, results, cur["oracle"] = pa.value
            items = list(buf) if not isinstance(buf, (bytes, bytearray)) else list(buf)

            def marker_at(i):
                return z3.And(truth(content[i] == 0xAA), truth(content[i + 1] == 0x55))
            none_before = lambda s: [z3.Not(marker_at(i)) for i in range(0, s)]
            if outcome == "exit":
                if seen:
                    rep.violation({"kind": "iteration-exit-after-cut"}, "N=%d: the loop body both cut a packet and left the loop" % N, wit(m0))
                    continue
                # legal exits: the buffer kept is a suffix of the old one that (a) holds at most the last byte when there is
                # no marker (and does hold it if it is 0xAA), or (b) still starts at or before the first marker, which has
                # fewer than 20 bytes after it
                M = len(items)
                if M > N:
                    cl = z3.BoolVal(False)
                else:
                    suffix = z3.And(*[truth(SymInt.lift(items[i]) == content[N - M + i]) for i in range(M)]) if M else z3.BoolVal(True)
                    no_marker = z3.And(*none_before(N - 1)) if N >= 2 else z3.BoolVal(True)
                    if M <= KEEP_MAX:
                        # how many trailing noise bytes an implementation keeps is its own business as long as it is a small
                        # constant (KEEP_MAX) and a trailing 0xAA - possibly the first half of a marker - is not thrown away
                        kept = z3.BoolVal(True) if (M >= 1 or N == 0) else z3.Not(truth(content[N - 1] == 0xAA))
                        claim_a = z3.And(no_marker, kept)
                    else:
                        claim_a = z3.BoolVal(False)
                    firsts = [z3.And(marker_at(s_), *none_before(s_)) for s_ in range(max(0, N - 19, N - M), N - 1)]
                    claim_b = z3.Or(*firsts) if firsts else z3.BoolVal(False)
                    cl = z3.And(suffix, z3.Or(claim_a, claim_b))
                st, m = prove(cl, pa.pc, label="iteration-exit/N=%d" % N)
                if st == "sat":
                    rep.violation({"kind": "iteration-exit"},
                                  "N=%d: the loop is left holding %d bytes in a state that is neither 'no marker, at most KEEP_MAX trailing bytes kept (a trailing 0xAA is kept)' nor 'a suffix starting at or before the first marker, which has < 20 bytes after it'" % (N, len(items)), wit(m))
                elif st == "unknown":
                    rep.inconc("iteration exit N=%d undecided" % N)
            else:
                if len(seen) != 1 or len(seen[0]) != 20:
                    rep.violation({"kind": "iteration-cut"}, "N=%d: decode_usb called %d times / with %s bytes in one iteration" % (N, len(seen), [len(x) for x in seen]), wit(m0))
                    continue
                cut = seen[0]
                rest = len(items)
                s = N - 20 - rest
                if s < 0:
                    rep.violation({"kind": "iteration-cut"}, "N=%d: buffer grew during an iteration" % N, wit(m0))
                    continue
                cl = [marker_at(s)] + none_before(s)
                cl += [truth(SymInt.lift(cut[k]) == content[s + k]) for k in range(20)]
                cl += [truth(SymInt.lift(items[k]) == content[s + 20 + k]) for k in range(rest)]
                # queued iff decode_usb delivered
                cl.append(z3.BoolVal(len(queued) == len(results)))
                st, m = prove(z3.And(*cl), pa.pc, label="iteration-cut/N=%d" % N)
                if st == "sat":
                    rep.violation({"kind": "iteration-cut"}, "N=%d: the packet cut is not buf[first marker : +20] / remainder is not buf[+20:] / queueing wrong" % N, wit(m))
                elif st == "unknown":
                    rep.inconc("iteration cut N=%d undecided" % N)
        rep.sample({"buffer_bytes": N, "paths": len(paths)})
    return dict(violations=rep.violations, inconclusive=rep.inconclusive, errors=rep.harness_errors, samples=rep.samples[:2], stats=explorer.STATS, states=states)


def bound_lemma(rep):
    """(2) integer induction over (len, first marker position) using the transition relation proved in (1)"""
    L0, s0, n, L, s = z3.Ints("L0 s0 n L s")
    K = KEEP_MAX

    def Inv(Lx, sx):
        return z3.Or(z3.And(sx == -1, Lx >= 0, Lx <= K), z3.And(sx >= 0, sx <= 99 + K, Lx - sx < 20, Lx >= sx + 2))
    # after the read: the buffer is L = L0+n long; the first marker is where it was, or (none before) somewhere from L0-1 on
    after_read = z3.And(n >= 0, n <= 100, L == L0 + n,
                        z3.If(s0 >= 0, s == s0, z3.Or(s == -1, z3.And(s >= z3.If(L0 >= 1, L0 - 1, 0), s <= L - 2))))
    # loop-head invariant H(L, s, cuts): before any cut: L <= 219 and s <= 100; after a cut: L <= 99
    cut = z3.Bool("cut")
    H = z3.And(L >= 0, z3.Or(s == -1, z3.And(s >= 0, s <= L - 2)), z3.If(cut, L <= 99, z3.And(L <= 218 + K, z3.Or(s == -1, s <= 99 + K))))
    obligations = []
    # entry
    obligations.append(("entry", z3.Implies(z3.And(Inv(L0, s0), after_read, z3.Not(cut)), H)))
    # step: a cut at s with L - s >= 20 leads to L' = L - s - 20 < 100 when no cut happened yet (L0 - s0 < 20 ...) - stated via H
    L2, s2 = z3.Ints("L2 s2")
    step_pre = z3.And(H, s >= 0, L - s >= 20, L2 == L - s - 20, z3.Or(s2 == -1, z3.And(s2 >= 0, s2 <= L2 - 2)))
    first_cut_small = z3.Implies(z3.Not(cut), z3.And(Inv(L0, s0), after_read))
    H2 = z3.And(L2 >= 0, L2 <= 99)
    obligations.append(("step", z3.Implies(z3.And(step_pre, first_cut_small), H2)))
    # exit: no marker -> at most one byte kept; marker with < 20 bytes -> unchanged
    Lx = z3.Int("Lx")
    exit_nomarker = z3.And(H, s == -1, Lx >= 0, Lx <= K)
    obligations.append(("exit-no-marker", z3.Implies(exit_nomarker, Inv(Lx, z3.IntVal(-1)))))
    exit_wait = z3.And(H, s >= 0, L - s < 20, z3.Implies(z3.Not(cut), z3.And(Inv(L0, s0), after_read)))
    obligations.append(("exit-waiting", z3.Implies(exit_wait, Inv(L, s))))
    for name, ob in obligations:
        st, m = prove(ob, label="bound/" + name)
        if st == "sat":
            rep.violation({"kind": "bound-lemma", "step": name}, "buffer bound induction fails at step %s: %s" % (name, m), {"kind": "bound"})
        elif st == "unknown":
            rep.inconc("bound lemma %s undecided" % name)
    rep.count("bound_obligations", len(obligations))


HELD_MAX = 2 * KEEP_MAX + 119       # what the bound lemma proves (158) plus slack for an implementation's own bookkeeping


def growth_check(rep, M, is_replay=False):
    """(5) the bytes held back between reads stay bounded over long streams whose read boundaries never coincide with packet
    boundaries: 60 valid packets back to back / separated by noise runs, read in pieces of 30,20,20,... / 7 / 33 / 64 / 100
    bytes.  Whole calls of the real _receive_impl on concrete streams (the inductive bound (2) rests on the iteration lemma
    (1); this part checks the bound itself on the running code, whatever bookkeeping the implementation uses)."""
    from .plain import plain
    N = plain()
    enc = N.encoder.NMEA2000Encoder()
    dec = N.decoder.NMEA2000Decoder()
    from datetime import datetime
    pk = []
    for i in range(60):
        m = dec._decode(127250, 2, 1 + i % 200, 255, datetime(2020, 1, 1), bytes([i % 250, 0x10, 0x27, 0xFF, 0x7F, 0xFF, 0x7F, 0xFD][::-1]), b"")
        pk.append(enc.encode_usb(m)[0])
    streams = {"back to back": b"".join(pk), "3 noise bytes between packets": b"".join(b"\x01\x02\x03" + x for x in pk),
               "trailing 0xAA noise between packets": b"".join(x + b"\x00\xaa" for x in pk)}
    n = 0
    for sname, st in streams.items():
        for rname, sizes in (("30,20,20,...", [30] + [20] * 400), ("7", [7] * 400), ("33", [33] * 400), ("64", [64] * 400), ("100", [100] * 400)):
            chunks, pos = [], 0
            for sz in sizes:
                if pos >= len(st):
                    break
                chunks.append(st[pos:pos + sz])
                pos += sz
            c = build_client(M, list(chunks))
            c.decoder = M.decoder.NMEA2000Decoder()
            got = []
            c.decoder._decode = lambda pgn, prio, src, dst, ts, data, raw, combined=False: got.append(src) or "MSG"
            loader.TICK_HOOK[0] = None
            worst = 0
            try:
                for _ in chunks:
                    drive(c._receive_impl())
                    worst = max(worst, held_bytes(c))
            except Exception as e:
                worst = -1
                err = e
            n += 1
            bad = None
            if worst < 0:
                bad = "receive loop raised %r" % (err,)
            elif worst > HELD_MAX:
                bad = "the client held back %d bytes between reads (bound %d)" % (worst, HELD_MAX)
            elif len(got) < 59:
                bad = "only %d of 60 packets delivered" % len(got)
            if bad:
                text = "stream of 60 packets (%s), reads of %s bytes: %s" % (sname, rname, bad)
                if is_replay:
                    return True, text
                rep.violation({"kind": "held-bytes", "stream": sname}, text, {"kind": "growth"})
                break
    if is_replay:
        return False, "held bytes bounded on %d long streams" % n
    rep.count("long_stream_runs", n)


@guarded
def _resync_worker(job):
    """(4) whole calls: noise + two valid packets, split into reads"""
    from . import explorer
    explorer.STATS.__init__()
    R = _G["R"]
    rep = Report(PID, _G["tier"], 0, "model_checking")
    nnoise, trailing_half = job
    noise = [SymInt.var("n%d" % i, 8) for i in range(nnoise)]
    assume = []
    stream = list(noise)
    for i in range(nnoise - 1):
        assume.append(z3.Not(z3.And(truth(noise[i] == 0xAA), truth(noise[i + 1] == 0x55))))
    if nnoise and not trailing_half:
        assume.append(z3.Not(truth(noise[-1] == 0xAA)))
    pkts = []
    for k in range(2):
        body = [SymInt.var("p%d_%d" % (k, i), 8) for i in range(2, 19)]
        body[7] = 8
        pk = [0xAA, 0x55] + body
        ssum = 0
        for b in body:
            ssum = ssum + b
        pk.append((SymInt.lift(ssum) & 0xFF))
        # bytes after the header do not contain the marker (as the property assumes); data length <= 8
        for i in range(2, 19):
            assume.append(z3.Not(z3.And(truth(SymInt.lift(pk[i]) == 0xAA), truth(SymInt.lift(pk[i + 1]) == 0x55))))
        pass
        pkts.append(pk)
        stream += pk
    T = len(stream)
    splits = [(c,) for c in range(1, T)]
    splits += [(a, b) for a in (1, nnoise + 1 if nnoise + 1 < T else 1, nnoise + 20, nnoise + 21) for b in (a + 1, a + 19, a + 20, T - 1) if 0 < a < b < T]
    states = 0
    for sp in splits:
        cuts = [0] + list(sp) + [T]
        chunks = [SymBytes(stream[cuts[i]:cuts[i + 1]]) for i in range(len(cuts) - 1)]

        def h():
            c, _ = make_client(R, SymByteArray([]), list(chunks))
            results = []
            c.decoder._decode = lambda pgn, prio, src, dst, ts, data, raw, combined=False: results.append((pgn, prio, src, dst, data)) or ("MSG", len(results))
            loader.TICK_HOOK[0] = None
            for _ in chunks:
                drive(c._receive_impl())
            return results, len(c._buffer), list(c.queue.items)
        try:
            paths, ex = explore(h, max_paths=4096, assumptions=assume)
        except Unsupported as e:
            rep.inconc("resync %r split %r: %s" % (job, sp, e))
            continue
        states += len(paths)
        for pa in paths:
            st0, m0 = satisfiable(z3.And(pa.cond(), *assume))
            if st0 != "sat":
                continue

            def wit(m):
                conc = bytes((m.eval(SymInt.lift(b).t, True).as_long() & 0xFF) for b in stream)
                return {"kind": "resync", "stream": conc.hex(), "cuts": list(sp), "noise": nnoise}
            if pa.kind != "return":
                rep.violation({"kind": "resync-raises"}, "raised %r" % (pa.value,), wit(m0))
                continue
            results, left, queued = pa.value
            if len(results) != 2 or len(queued) != 2:
                rep.violation({"kind": "resync-lost", "delivered": len(results)}, "noise of %d marker-free bytes, split %r: %d of 2 packets delivered" % (nnoise, sp, len(results)), wit(m0))
                continue
            cl = []
            for k in range(2):
                pgn, prio, src, dst, data = results[k]
                idv = SymInt.lift(P.int_from_bytes(SymBytes(pkts[k][5:9]), "little"))
                cl.append(truth(SymInt.lift(src) == (idv & 0xFF)))
            st, m = prove(z3.And(*cl), assume + pa.pc, label="resync-order")
            if st == "sat":
                rep.violation({"kind": "resync-order"}, "packets delivered out of order / with wrong content", wit(m))
    rep.sample({"noise_bytes": nnoise, "trailing_half_marker": trailing_half, "splits": len(splits)})
    return dict(violations=rep.violations, inconclusive=rep.inconclusive, errors=rep.harness_errors, samples=rep.samples[:1], stats=explorer.STATS, states=states)


def checksum_check(rep, R):
    """(3) decode_usb on a fully symbolic 20-byte window"""
    win = [SymInt.var("w%d" % i, 8) for i in range(20)]

    def h():
        dec = R.decoder.NMEA2000Decoder()
        rec = []
        dec._decode = lambda pgn, prio, src, dst, ts, data, raw, combined=False: rec.append((pgn, prio, src, dst, data))
        r = dec.decode_usb(SymBytes(win))
        return rec
    paths, ex = explore(h, max_paths=256)
    for pa in paths:
        if pa.kind != "return" or not pa.value:
            continue
        ssum = 0
        for b in win[2:19]:
            ssum = ssum + b
        cl = z3.And(truth(win[0] == 0xAA), truth(win[1] == 0x55), truth(win[19] == (SymInt.lift(ssum) & 0xFF)))
        st, m = prove(cl, pa.pc, label="checksum")
        if st == "sat":
            rep.violation({"kind": "checksum"}, "a 20-byte window without AA 55 / with a wrong checksum reaches the decoder",
                          {"kind": "window", "bytes": bytes(m.eval(b.t, True).as_long() & 0xFF for b in win).hex()})
        # what is passed on
        pgn, prio, src, dst, data = pa.value[0]
    rep.count("checksum_paths", len(paths))


def run(tier, seed):
    from . import explorer
    rep = Report(PID, tier, seed, "model_checking")
    R = loader.load(with_io=True)
    _G.update(R=R, tier=tier)
    rep.functions = ["ioclient.WaveShareNmea2000Gateway._receive_impl", "decoder.decode_usb", "utils.calculate_canbus_checksum"]
    Ns = [1, 2, 3, 19, 20, 21, 22, 39, 41, 60] if tier == "quick" else list(range(1, 80)) + [100, 119, 120, 150, 219]
    rep.bounds = {"iteration lemma": "buffer lengths %s, all contents" % (Ns if tier == "quick" else "0..79, 100, 119, 120, 150, 219"),
                  "bound": "inductive over reads of <= 100 bytes (no stream-length limit), using the transition relation of the iteration lemma",
                  "resynchronisation": "marker-free noise of 0..3 bytes (incl. a trailing 0xAA) + 2 valid packets, every 2-read split and selected 3-read splits"}
    rep.stubs = ["bytearray.find(marker) -> fork on the first position where both bytes match", "reader.read / queue.put -> in-memory stubs; _decode -> recorder",
                 "loop cut after one iteration by the loop-fuel hook"]
    rep.outside = ["noise longer than 3 bytes in the whole-call resynchronisation harness (the inductive parts have no such limit)", "pyserial behaviour"]
    nproc = 16
    parts = run_jobs(rep, _iter_worker, [Ns[k::nproc] for k in range(nproc) if Ns[k::nproc]], timeout_s=800)
    rs = run_jobs(rep, _resync_worker, [(0, False), (1, True), (1, False), (2, True), (3, False)] + ([(6, True), (24, False)] if tier == "thorough" else []), timeout_s=240 if tier == "quick" else 2400)
    bound_lemma(rep)
    checksum_check(rep, R)
    growth_check(rep, R)
    st = sum(p["states"] for p in parts + rs if p and "states" in p)
    rep.coverage.update(states=max(1, st), transitions=max(1, st), traces_validated_against_impl=0,
                        explanation="states = symbolic paths (one per first-marker position / outcome); the bound is an inductive SMT argument on top of the iteration lemma")
    rep.assumptions = ["reads return at most 100 bytes (the literal in the code is checked by the harness: reader.read is called with 100)",
                       "packet bytes after the header contain no marker (property's assumption) in the resynchronisation harness"]
    return rep.finish(replay)


def replay(r):
    import asyncio
    from .plain import plain
    N = plain(with_io=True)

    def run_client(chunks, oracle=None):
        import logging
        logging.disable(logging.CRITICAL)
        c = build_client(N, chunks)
        c.decoder = N.decoder.NMEA2000Decoder()
        if oracle:
            real_usb = c.decoder.decode_usb
            ncall = [0]

            def usb(packet):
                i_ = ncall[0]
                ncall[0] += 1
                if i_ < len(oracle) and oracle[i_] == 2:
                    raise ValueError("decoder rejects this window")
                return real_usb(packet)
            c.decoder.decode_usb = usb
        res = []
        c.decoder._decode = lambda pgn, prio, src, dst, ts, data, raw, combined=False: res.append((pgn, src, bytes(data))) or "MSG"
        lens = []
        for _ in range(len(chunks)):
            co = c._receive_impl()
            try:
                co.send(None)
            except StopIteration:
                pass
            lens.append(held_bytes(c))
        return res, lens, c
    if r["kind"] == "growth":
        return growth_check(None, N, is_replay=True)
    if r["kind"] == "iteration":
        buf = bytes.fromhex(r["buffer"])
        res, lens, c = run_client([buf], r.get("oracle"))
        # reference: process as the property describes
        i = 0
        exp = []
        windows = []
        b = buf
        while True:
            s = b.find(b"\xaa\x55")
            if s == -1 or s + 20 > len(b):
                break
            pk = b[s:s + 20]
            if pk[19] == sum(pk[2:19]) & 0xFF and not ((r.get("oracle") or [0] * 99)[len(windows)] == 2 if len(windows) < len(r.get("oracle") or []) else False):
                exp.append(pk)
            windows.append(pk)
            b = b[s + 20:]
        left = bytes(c._buffer)
        sm = b.find(b"\xaa\x55")
        ok_left = (sm == -1 and len(left) <= KEEP_MAX and b.endswith(left) and (len(left) >= 1 or not b.endswith(b"\xaa"))) or \
                  (sm != -1 and b.endswith(left) and len(left) >= len(b) - sm)
        bad = len(res) != len(exp) or not ok_left
        return bad, "buffer %s: %d packets delivered (expected %d), %d bytes held: %s" % (buf.hex(), len(res), len(exp), len(left), left.hex())
    if r["kind"] == "resync":
        st = bytes.fromhex(r["stream"])
        cuts = [0] + r["cuts"] + [len(st)]
        res, lens, c = run_client([st[cuts[i]:cuts[i + 1]] for i in range(len(cuts) - 1)])
        return len(res) != 2, "%d of 2 packets delivered for reads %r" % (len(res), [cuts[i + 1] - cuts[i] for i in range(len(cuts) - 1)])
    if r["kind"] == "window":
        dec = N.decoder.NMEA2000Decoder()
        rec = []
        dec._decode = lambda *a, **k: rec.append(a)
        w = bytes.fromhex(r["bytes"])
        try:
            dec.decode_usb(w)
        except Exception:
            return False, "rejected"
        good = w[0] == 0xAA and w[1] == 0x55 and w[19] == sum(w[2:19]) & 0xFF
        return bool(rec) and not good, "window %s accepted" % w.hex()
    if r["kind"] == "bound":
        # unbounded growth witness: marker-free noise in many reads
        res, lens, c = run_client([bytes([1]) * 100] * 5)
        return max(lens) > 119, "bytes held after each read of 100 noise bytes: %r" % (lens,)
    return None, "unknown"
