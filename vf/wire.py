"""Wire-format helpers shared by C05/C06/C07: sample messages, encode->decode drivers, replay."""
from datetime import datetime
import z3

from .db import db
from .explorer import EX, explore, Unsupported
from .proxies import SymInt, SymBytes, truth, ev
from . import textsym

TS = datetime(2020, 1, 1)
YD_PREFIX = "00:00:00.000 R "
ACT_PREFIX = "A000000.000 "


def match_payload(p, fill=0):
    """payload int with every match field set to its match value"""
    v = 0
    nbits = 8 * (p.length or 8)
    if fill:
        v = int.from_bytes(bytes([fill]) * (nbits // 8), "little")
    for f in p.fields:
        if f.match is not None and f.fixed:
            mask = ((1 << f.len) - 1) << f.off
            v = (v & ~mask) | ((int(f.match) << f.off) & mask)
    return v.to_bytes(max(nbits // 8, (v.bit_length() + 7) // 8), "little")


def decode_def(N, p, payload_le):
    """decode a little-endian payload with the per-definition function of module namespace N"""
    fn = N.pgns.__dict__["decode_pgn_%s" % db().func_suffix(p)]
    return fn(int.from_bytes(payload_le, "little"))


_SAMPLE_CACHE = {}


def header_samples(N, every=False):
    """(pgn definition, payload) for: PDU1 single, PDU2 single, PDU1 fast, PDU2 fast — encodable ones,
    found by running the plain code on concrete payloads; every=True: one sample for every encodable definition"""
    key = "all" if every else "s"
    if key in _SAMPLE_CACHE:
        return _SAMPLE_CACHE[key]
    if every:
        from .plain import plain
        PN = plain()
        enc = PN.encoder.NMEA2000Encoder()
        out = []
        for p in db().pgns:
            if p.type not in ("Single", "Fast"):
                continue
            for fill in (0, 1):
                try:
                    pl = match_payload(p, fill)
                    m = decode_def(PN, p, pl)
                    m.add_data(1, 2, 3, TS, None, False, b"")
                    b = enc._call_encode_function(m)
                    if len(b) > 0:
                        out.append((p, pl))
                        break
                except Exception:
                    continue
        _SAMPLE_CACHE[key] = out
        return out
    from .plain import plain
    PN = plain()
    want = {}
    enc = PN.encoder.NMEA2000Encoder()
    for p in db().pgns:
        if p.type not in ("Single", "Fast"):
            continue
        pdu1 = ((p.pgn >> 8) & 0xFF) < 240
        cls = ("pdu1" if pdu1 else "pdu2", "fast" if p.fast else "single")
        if cls in want:
            continue
        for fill in (0, 1):
            try:
                pl = match_payload(p, fill)
                m = decode_def(PN, p, pl)
                m.add_data(1, 2, 3, TS, None, False, b"")
                b = enc._call_encode_function(m)
                if len(b) > 0 and (not p.fast or len(b) > 8):
                    want[cls] = (p, pl)
                    break
            except Exception:
                continue
        if len(want) == 4:
            break
    _SAMPLE_CACHE["s"] = [want[k] for k in sorted(want)]
    return _SAMPLE_CACHE["s"]


def make_message(N, p, pl, src, dst, prio):
    m = decode_def(N, p, pl)
    m.add_data(src, dst, prio, TS, None, False, b"")
    return m


def encode_packets(N, enc, fmt, m):
    if fmt == "ebyte":
        return enc.encode_ebyte(m)
    if fmt == "usb":
        return enc.encode_usb(m)
    if fmt == "yacht":
        return enc.encode_yacht_devices(m)
    if fmt == "actisense":
        return [enc.encode_actisense(m)]
    raise ValueError(fmt)


def decode_packet(dec, fmt, pk):
    if fmt == "ebyte":
        return dec.decode_tcp(pk)
    if fmt == "usb":
        return dec.decode_usb(pk)
    if fmt == "yacht":
        line = pk.decode("utf-8", errors="ignore").strip()
        return dec.decode_yacht_devices_string(YD_PREFIX + line)
    if fmt == "actisense":
        return dec.decode_actisense_string(ACT_PREFIX + pk)
    raise ValueError(fmt)


def expected_dst(fmt, pgn, dst):
    if fmt == "actisense":
        return dst
    return dst if ((pgn >> 8) & 0xFF) < 240 else 255


def header_roundtrip(R, fmt, rep, oblig):
    samples = header_samples(R)
    S = [z3.BitVec("src%d" % i, 8) for i in range(2)]
    D = [z3.BitVec("dst%d" % i, 8) for i in range(2)]
    Pr = [z3.BitVec("prio%d" % i, 3) for i in range(2)]

    def h():
        ks = [EX().choose(len(samples)), EX().choose(len(samples))]
        enc = R.encoder.NMEA2000Encoder()
        dec = R.decoder.NMEA2000Decoder()
        rec = []
        dec._decode = lambda pgn, prio, src, dst, ts, data, raw, combined=False: rec.append((pgn, prio, src, dst))
        nframes = []
        for step, k in enumerate(ks):
            p, pl = samples[k]
            m = make_message(R, p, pl, SymInt(z3.ZeroExt(1, S[step])), SymInt(z3.ZeroExt(1, D[step])),
                             SymInt(z3.ZeroExt(1, Pr[step])))
            pks = encode_packets(R, enc, fmt, m)
            nframes.append(len(pks))
            for pk in pks:
                decode_packet(dec, fmt, pk)
        return ks, nframes, rec

    paths, ex = explore(h)
    nret = 0
    for p in paths:
        def mk(m, p=p):
            ks = p.decisions[:2]
            return {"kind": "wire", "fmt": fmt,
                    "steps": [{"sample": int(ks[i]), "src": m.eval(S[i], True).as_long(),
                               "dst": m.eval(D[i], True).as_long(), "prio": m.eval(Pr[i], True).as_long()}
                              for i in range(2)]}
        if p.kind != "return":
            r, m = ex.model_for(*p.pc)
            if m is not None:
                rep.violation({"kind": "wire-raises", "fmt": fmt}, "%s encode/decode raised %r" % (fmt, p.value), mk(m))
            continue
        nret += 1
        ks, nframes, rec = p.value
        if len(rec) != sum(nframes):
            r, m = ex.model_for(*p.pc)
            rep.violation({"kind": "wire-frame-count", "fmt": fmt}, "decoder saw %d frames of %d" % (len(rec), sum(nframes)), mk(m))
            continue
        claims = []
        idx = 0
        for step, k in enumerate(ks):
            pd, _ = samples[k]
            for _i in range(nframes[step]):
                pgn, prio, src, dst = rec[idx]
                idx += 1
                ed = SymInt(z3.ZeroExt(1, D[step])) if expected_dst(fmt, pd.pgn, 0) == 0 else 255
                claims += [truth(SymInt.lift(pgn) == pd.pgn), truth(SymInt.lift(prio) == SymInt(z3.ZeroExt(1, Pr[step]))),
                           truth(SymInt.lift(src) == SymInt(z3.ZeroExt(1, S[step]))), truth(SymInt.lift(dst) == ed)]
        oblig(z3.And(*claims), p.pc, "wire-header/%s/%s" % (fmt, "-".join(map(str, ks))),
              {"kind": "wire-header", "fmt": fmt},
              "addressing does not survive %s encode -> decode (two consecutive messages on one encoder)" % fmt, mk)
    if nret == 0:
        rep.error("wire %s: no returning path (vacuous)" % fmt)
    rep.sample({"obligation": "wire header round trip", "format": fmt, "paths": len(paths),
                "samples": [(p.pgn, p.id) for p, _ in samples]})


def replay_header(N, r):
    samples = header_samples(N)
    fmt = r["fmt"]
    enc = N.encoder.NMEA2000Encoder()
    dec = N.decoder.NMEA2000Decoder()
    rec = []
    dec._decode = lambda pgn, prio, src, dst, ts, data, raw, combined=False: rec.append((pgn, prio, src, dst))
    exp = []
    try:
        for st in r["steps"]:
            p, pl = samples[st["sample"]]
            m = make_message(N, p, pl, st["src"], st["dst"], st["prio"])
            pks = encode_packets(N, enc, fmt, m)
            for pk in pks:
                exp.append((p.pgn, st["prio"], st["src"], expected_dst(fmt, p.pgn, st["dst"])))
                decode_packet(dec, fmt, pk)
    except Exception as e:
        return True, "raised %r" % (e,)
    return rec != exp, "decoder saw %r, expected %r" % (rec, exp)
