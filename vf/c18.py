"""C18 - preferred-unit conversion rewrites only value and unit of matching quantities.
(U) the real NMEA2000Decoder.__init__ (lower-casing) + real apply_preferred_units + real converters run on a message
    with one field per physical quantity (and one without), each value a symbolic optional binary64 in the
    rounding-error model, for every single-entry preference map {quantity: unit spelling} and some larger maps:
    per field z3 proves the unit label, the value (exact conversion +- the library's decimal rounding) and
    None-preservation; everything else must be the identical object (frame condition).
(R) routes: a message that reaches the caller through the single-frame path, through fast-packet reassembly and
    pre-assembled is converted identically (symbolic field bits, same terms).
(D) every database field of a convertible quantity is stored in the unit the converter assumes."""
import math
from fractions import Fraction
import z3

from . import loader, envmodels, numkernel
from .common import Report, guarded, run_jobs
from .db import db
from .explorer import explore, prove, satisfiable, Unsupported, EX
from .proxies import SymInt, SymOpt, SymBytes, is_symbolic
from .realmodel import SymIntZ, SymReal, real_context, rv, Ctx, ctx
from . import proxies as P

PID = "C18"
_G = {}
SPELLINGS = ["c", "C", "f", "F", "bar", "BAR", "Bar", "psi", "PSI", "Psi", "deg", "DEG", "Deg", "kts", "KTS", "Kts", "k", "pa", "rad", "m/s", "xyz", ""]
PI_LO = Fraction(314159265358979323846264338327, 10 ** 29)
PI_HI = PI_LO + Fraction(1, 10 ** 29)


class _Math:
    """math.degrees on a rounding-model float: x*(180/pi) with 180/pi enclosed by rationals, one rounding"""
    pi = math.pi

    @staticmethod
    def degrees(x):
        if isinstance(x, SymOpt):
            x = x._force()
        if not isinstance(x, SymReal):
            return math.degrees(x)
        c = ctx()
        r = c.fresh_real("deg")
        lo, hi = Fraction(180) / PI_HI, Fraction(180) / PI_LO
        ax = z3.If(x.t >= 0, x.t, -x.t)
        c.cons.append(z3.And(r >= z3.If(x.t >= 0, x.t * rv(lo), x.t * rv(hi)) - ax * rv(Fraction(1, 10 ** 13)),
                             r <= z3.If(x.t >= 0, x.t * rv(hi), x.t * rv(lo)) + ax * rv(Fraction(1, 10 ** 13))))
        return SymReal(r)

    def __getattr__(self, k):
        return getattr(math, k)


def expected(qname, pref_lower):
    """spec from the property text: (unit label, exact conversion as a function of the real value, tolerance)"""
    if qname == "TEMPERATURE" and pref_lower == "c":
        return "C", lambda v: v - rv(Fraction("273.15")), Fraction(5, 1000)
    if qname == "TEMPERATURE" and pref_lower == "f":
        return "F", lambda v: (v - rv(Fraction("273.15"))) * rv(Fraction(9, 5)) + 32, Fraction(1, 2)
    if qname == "PRESSURE" and pref_lower == "bar":
        return "Bar", lambda v: v / 100000, Fraction(0)
    if qname == "PRESSURE" and pref_lower == "psi":
        return "PSI", lambda v: v / rv(Fraction("6894.76")), Fraction(0)
    if qname == "ANGLE" and pref_lower == "deg":
        return "Deg", lambda v: v * rv(Fraction(180) / ((PI_LO + PI_HI) / 2)), Fraction(1, 2)
    if qname == "SPEED" and pref_lower == "kts":
        return "kts", lambda v: v * rv(Fraction(3600, 1852)), Fraction(5, 100)
    return None


@guarded
def _worker(jobs):
    from . import explorer
    explorer.STATS.__init__()
    R = _G["R"]
    rep = Report(PID, _G["tier"], 0, "other")
    PQ = R.consts.PhysicalQuantities
    quantities = list(PQ) + [None]
    FieldT = R.message.NMEA2000Field
    n = 0
    for prefs_spec in jobs:
        prefs = {PQ[k]: u for k, u in prefs_spec}
        n += 1
        with real_context() as c:
            vals = {}
            fields = []
            marks = {}
            for q in quantities:
                qn = q.name if q is not None else "NONE"
                v = z3.Real("v_%s" % qn)
                isnone = z3.Bool("none_%s" % qn)
                val = SymOpt(isnone, SymReal(v))
                raw = ("RAW", qn)
                unit0 = {"TEMPERATURE": "K", "PRESSURE": "Pa", "ANGLE": "rad", "SPEED": "m/s"}.get(qn, "u_" + qn)
                f = FieldT("id_" + qn, "Name " + qn, "desc", unit0, val, raw, q, R.consts.FieldTypes.NUMBER, qn == "ANGLE")
                fields.append(f)
                vals[qn] = (v, isnone, val, raw, unit0)

            def h():
                dec = R.decoder.NMEA2000Decoder(preferred_units=dict(prefs))
                m = R.message.NMEA2000Message(PGN=1, id="m", description="d")
                m.fields = [FieldT(f.id, f.name, f.description, f.unit_of_measurement, f.value, f.raw_value, f.physical_quantities, f.type, f.part_of_primary_key)
                            for f in fields]
                before = [(id(x), x.id, x.name, x.description, x.raw_value, x.physical_quantities, x.type, x.part_of_primary_key) for x in m.fields]
                m.apply_preferred_units(dec.preferred_units)
                after = [(id(x), x.id, x.name, x.description, x.raw_value, x.physical_quantities, x.type, x.part_of_primary_key) for x in m.fields]
                return m, before == after and (m.PGN, m.id, m.description) == (1, "m", "d")
            try:
                paths, ex = explore(h, max_paths=4096)
            except Unsupported as e:
                rep.inconc("prefs %r: %s" % (prefs_spec, e))
                continue
            cons = list(c.cons)
        dom = []
        for qn, (v, isnone, val, raw, unit0) in vals.items():
            dom += [v >= -10000000, v <= 10000000]

        def wit(mm, qn):
            v, isnone, val, raw, unit0 = vals[qn]
            fr = mm.eval(v, True).as_fraction() if mm is not None else Fraction(300)
            return {"kind": "units", "prefs": [[k, u] for k, u in prefs_spec], "quantity": qn, "unit0": unit0,
                    "value": None if (mm is not None and z3.is_true(mm.eval(isnone, True))) else float(fr)}
        for pa in paths:
            if pa.kind != "return":
                st0, m0 = satisfiable(z3.And(*(dom + cons + pa.pc)))
                if st0 == "sat":
                    rep.violation({"kind": "units-raise"}, "apply_preferred_units raised %r for %r" % (pa.value, prefs_spec), wit(m0, "TEMPERATURE"))
                continue
            m, frame_ok = pa.value
            if not frame_ok:
                rep.violation({"kind": "frame", "prefs": repr(prefs_spec)}, "attributes other than value/unit changed for preferences %r" % (prefs_spec,), wit(None, "TEMPERATURE"))
                continue
            for f in m.fields:
                qn = f.physical_quantities.name if f.physical_quantities is not None else "NONE"
                v, isnone, val, raw, unit0 = vals[qn]
                pref = prefs.get(f.physical_quantities) if f.physical_quantities is not None else None
                spec = expected(qn, pref.lower()) if isinstance(pref, str) else None
                if spec is None:
                    if f.value is not val or f.unit_of_measurement != unit0:
                        rep.violation({"kind": "changed-without-recognised-preference", "quantity": qn, "pref": repr(pref)},
                                      "field of quantity %s changed (unit %r) under preferences %r" % (qn, f.unit_of_measurement, prefs_spec), wit(None, qn))
                    continue
                unit, conv, tol = spec
                if f.unit_of_measurement != unit:
                    rep.violation({"kind": "unit-label", "quantity": qn, "pref": pref.lower()}, "%s with preference %r: unit label %r, expected %r" % (qn, pref, f.unit_of_measurement, unit), wit(None, qn))
                    continue
                got = f.value
                gn = got.none if isinstance(got, SymOpt) else z3.BoolVal(got is None)
                gi = got.inner if isinstance(got, SymOpt) else got
                if gi is None:
                    claim = gn == isnone
                else:
                    gt = gi.t if isinstance(gi, SymReal) else z3.ToReal(gi.t) if isinstance(gi, SymIntZ) else rv(Fraction(gi))
                    ex_ = conv(v)
                    aex = z3.If(ex_ >= 0, ex_, -ex_)
                    slack = rv(tol) + aex * rv(Fraction(1, 10 ** 9)) + rv(Fraction(1, 10 ** 9))
                    claim = z3.And(gn == isnone, z3.Implies(z3.Not(isnone), z3.And(gt - ex_ <= slack, ex_ - gt <= slack)))
                st, mm = prove(claim, dom + cons + pa.pc, label="convert/%s/%s" % (qn, pref.lower()))
                if st == "sat":
                    rep.violation({"kind": "conversion", "quantity": qn, "pref": pref.lower()}, "%s -> %r: converted value is not the exact conversion within the library's rounding" % (qn, pref), wit(mm, qn))
                elif st == "unknown":
                    rep.inconc("convert %s/%s undecided" % (qn, pref))
        if len(rep.samples) < 1:
            rep.sample({"preferences": prefs_spec, "paths": len(paths), "fields": len(fields)})
    return dict(violations=rep.violations, inconclusive=rep.inconclusive, errors=rep.harness_errors, samples=rep.samples, stats=explorer.STATS, n=n)


@guarded
def _route_worker(_):
    """(R) the same fast-packet message through frames / pre-assembled; and a single-frame message: converted on every route"""
    from . import explorer
    from datetime import datetime
    explorer.STATS.__init__()
    R = _G["R"]
    D = _G["D"]
    rep = Report(PID, _G["tier"], 0, "other")
    PQ = R.consts.PhysicalQuantities
    prefs = {PQ.TEMPERATURE: "C", PQ.PRESSURE: "PSI", PQ.ANGLE: "Deg", PQ.SPEED: "KTS"}
    expect_unit = {"TEMPERATURE": "C", "PRESSURE": "PSI", "ANGLE": "Deg", "SPEED": "kts"}
    TS = datetime(2020, 1, 1)
    from .wire import match_payload
    done = {"single": 0, "fast": 0}
    for p in D.pgns:
        conv = [f for f in p.fields if f.pq in expect_unit and f.fixed and f.unit in ("K", "Pa", "rad", "m/s")]
        if not conv or D.multi(p.pgn) or len(D.groups[p.pgn]) > 1 or not all(f.fixed for f in p.fields) or p.type not in ("Single", "Fast"):
            continue
        kind = "fast" if p.fast else "single"
        if done[kind] >= (2 if _G["tier"] == "quick" else 6):
            continue
        # concrete in-range payload: every numeric field at its lowest legal raw value
        pl = 0
        ok = True
        for f in p.fields:
            if f.res is not None and f.type in ("NUMBER", "DURATION", "TIME", "DATE", "PGN", "MMSI"):
                lo, hi = numkernel.Sig(f).raw_range()
                raw = max(lo if lo is not None else 0, 0) + 1
                if hi is not None and raw > hi:
                    raw = hi
                pl |= (raw & ((1 << f.len) - 1)) << f.off
        n = p.length or (max(f.off + f.len for f in p.fields) + 7) // 8
        body = pl.to_bytes(n, "little")
        routes = {}
        try:
            for route in (("single",) if not p.fast else ("frames", "combined")):
                dec = R.decoder.NMEA2000Decoder(preferred_units=dict(prefs))
                if route == "single" or route == "combined":
                    m = dec._decode(p.pgn, 3, 7, 255, TS, body[::-1], b"", route == "combined")
                else:
                    enc = R.encoder.NMEA2000Encoder()
                    m = None
                    for fr in enc._encode_fast_message(p.pgn, 3, 7, 255, body):
                        m = dec._decode(p.pgn, 3, 7, 255, TS, bytes(fr[::-1]), b"")
                routes[route] = m
            plain_m = R.decoder.NMEA2000Decoder()._decode(p.pgn, 3, 7, 255, TS, body[::-1], b"", True)
        except Exception as e:
            continue
        if plain_m is None:
            continue
        done[kind] += 1
        for route, m in routes.items():
            bad = None
            if m is None:
                bad = "no message"
            else:
                for f0, f1, fd in zip(plain_m.fields, m.fields, p.fields):
                    if fd in conv and f0.value is not None:
                        if f1.unit_of_measurement != expect_unit[fd.pq] or f1.value == f0.value and f0.value != 0:
                            bad = "field %s not converted (unit %r)" % (fd.id, f1.unit_of_measurement)
                    elif (f1.value, f1.unit_of_measurement) != (f0.value, f0.unit_of_measurement):
                        bad = "field %s changed" % fd.id
            if bad:
                rep.violation({"kind": "route", "route": route}, "%s via %s: %s" % (p.id, route, bad), {"kind": "route", "def": p.id, "route": route, "payload": body.hex()})
        rep.sample({"route_check": p.id, "routes": list(routes)})
    # two definitions of one PGN number decoded one after the other by the same decoder: the second is converted by its own layout
    npairs = 0
    for pgn, group in D.groups.items():
        if len(group) < 2 or npairs >= (12 if _G["tier"] == "quick" else 200):
            continue
        withc = [q for q in group if any(f.pq in expect_unit and f.fixed and f.unit in ("K", "Pa", "rad", "m/s") for f in q.fields) and all(f.fixed for f in q.fields)]
        for B in withc[:2]:
            for A in [q for q in group if q is not B and all(f.fixed for f in q.fields)][:2]:
                bad = pair_problem(R, D, A, B, prefs, expect_unit)
                if bad is None:
                    continue
                npairs += 1
                if bad:
                    rep.violation({"kind": "route-after-sibling", "def": B.id}, "%s decoded after %s (same PGN %d): %s" % (B.id, A.id, pgn, bad),
                                  {"kind": "pair", "a": A.id, "b": B.id})
    rep.count("sibling_definition_pairs", npairs)
    return dict(violations=rep.violations, inconclusive=rep.inconclusive, errors=rep.harness_errors, samples=rep.samples[:2], stats=explorer.STATS, n=sum(done.values()), counts=rep.counts)


def sample_payload(p):
    """concrete payload: match fields at their match values, every numeric field at a low legal raw value"""
    from .wire import match_payload
    pl = int.from_bytes(match_payload(p), "little")
    for f in p.fields:
        if f.match is None and f.fixed and f.res is not None and f.type in ("NUMBER", "DURATION", "TIME", "DATE", "PGN", "MMSI"):
            lo, hi = numkernel.Sig(f).raw_range()
            raw = max(lo if lo is not None else 0, 0) + 1
            if hi is not None and raw > hi:
                raw = hi
            pl = (pl & ~(((1 << f.len) - 1) << f.off)) | ((raw & ((1 << f.len) - 1)) << f.off)
    n = p.length or (max(f.off + f.len for f in p.fields if f.fixed) + 7) // 8
    return (pl & ((1 << (8 * n)) - 1)).to_bytes(n, "little")


def pair_problem(M, D, A, B, prefs, expect_unit):
    """decode A then B (same PGN number) with one decoder that has unit preferences; None: the pair cannot be decoded"""
    from datetime import datetime
    TS = datetime(2020, 1, 1)
    try:
        dec = M.decoder.NMEA2000Decoder(preferred_units=dict(prefs))
        ma = dec._decode(A.pgn, 3, 7, 255, TS, sample_payload(A)[::-1], b"", True)
        mb = dec._decode(B.pgn, 3, 7, 255, TS, sample_payload(B)[::-1], b"", True)
        plain_b = M.decoder.NMEA2000Decoder()._decode(B.pgn, 3, 7, 255, TS, sample_payload(B)[::-1], b"", True)
    except Exception as e:
        if isinstance(e, IndexError):
            return "raised %r" % (e,)
        return None
    if ma is None or mb is None or plain_b is None or mb.id != B.id or ma.id != A.id:
        return None
    for f0, f1, fd in zip(plain_b.fields, mb.fields, B.fields):
        if fd.pq in expect_unit and fd.unit in ("K", "Pa", "rad", "m/s"):
            if f1.unit_of_measurement != expect_unit[fd.pq]:
                return "field %s keeps unit %r (expected %r)" % (fd.id, f1.unit_of_measurement, expect_unit[fd.pq])
        elif (f1.value, f1.unit_of_measurement) != (f0.value, f0.unit_of_measurement):
            return "field %s changed from %r %r to %r %r" % (fd.id, f0.value, f0.unit_of_measurement, f1.value, f1.unit_of_measurement)
    return ""


def run(tier, seed):
    from . import explorer
    rep = Report(PID, tier, seed, "other")
    D = db()
    R = loader.load()
    envmodels.install(R.utils)
    R.utils.__dict__["math"] = _Math()
    _G.update(R=R, D=D, tier=tier)
    rep.functions = ["decoder.NMEA2000Decoder.__init__ (preference lower-casing)", "message.NMEA2000Message.apply_preferred_units",
                     "utils.kelvin_to_celsius / kelvin_to_fahrenheit / pascal_to_bar / pascal_to_PSI / radians_to_degrees / mps_to_knots",
                     "decoder._decode / _decode_fast_message / _call_decode_function (routes)"]
    names = [q for q in ("TEMPERATURE", "PRESSURE", "ANGLE", "SPEED", "ANGULAR_VELOCITY", "DISTANCE", "PRESSURE_RATE", "GEOGRAPHICAL_LATITUDE")]
    singles = [((q, u),) for q in names for u in SPELLINGS]
    multi = [tuple((q, u) for q, u in zip(("TEMPERATURE", "PRESSURE", "ANGLE", "SPEED"), us)) for us in
             (("c", "bar", "deg", "kts"), ("F", "PSI", "DEG", "KTS"), ("bar", "c", "kts", "deg"), ("xyz", "xyz", "xyz", "xyz"))] + [tuple()]
    # recognised and unrecognised entries mixed, in every relative order (a preference map is an ordered dict)
    multi += [(("SPEED", "mph"), ("TEMPERATURE", "C")), (("TEMPERATURE", "C"), ("SPEED", "mph"), ("PRESSURE", "psi")),
              (("DISTANCE", "nm"), ("PRESSURE", "bar"), ("ANGLE", "deg")), (("PRESSURE", "mmHg"), ("TEMPERATURE", "F"), ("ANGLE", "xyz"), ("SPEED", "kts")),
              (("ANGLE", "deg"), ("GEOGRAPHICAL_LATITUDE", "deg"), ("SPEED", "KTS"))]
    jobs = singles + multi
    rep.bounds = {"preference maps": "%d single-entry maps (8 quantities x %d spellings incl. units of other quantities and unknown units) + %d multi-entry maps" % (len(singles), len(SPELLINGS), len(multi)),
                  "values": "any real in [-1e7, 1e7] or None (rounding-error model)", "message": "one field per physical quantity (28) + one without"}
    rep.stubs = ["round(x, n): |round(x,n) - x| <= 0.5*10^-n (+ one binary64 rounding)", "math.degrees: x*180/pi with 180/pi enclosed to 29 digits"]
    rep.outside = ["values beyond 1e7 in magnitude"]
    nproc = 16
    parts = run_jobs(rep, _worker, [jobs[k::nproc] for k in range(nproc)], timeout_s=600)
    run_jobs(rep, _route_worker, [0], timeout_s=300)
    # (D) database units of convertible quantities
    assumed = {"TEMPERATURE": "K", "PRESSURE": "Pa", "ANGLE": "rad", "SPEED": "m/s"}
    nflds = 0
    for p in D.pgns:
        for f in p.fields:
            if f.pq in assumed:
                nflds += 1
                if f.unit != assumed[f.pq]:
                    ok_, det_ = replay({"kind": "dbunit", "def": p.id, "field": f.id})
                    if ok_ is not False:
                        rep.violation({"kind": "db-unit", "def": p.id, "field": f.id},
                                      "%s.%s is stored in %r in the database but is converted as if it were %r" % (p.id, f.id, f.unit, assumed[f.pq]),
                                      {"kind": "dbunit", "def": p.id, "field": f.id})
                    else:
                        rep.count("fields_in_another_unit_left_alone")
    rep.count("database_fields_of_convertible_quantities", nflds)
    rep.count("preference_maps", sum(p_["n"] for p_ in parts if p_ and "n" in p_))
    rep.coverage.update(explanation="bounded symbolic verification: %d preference maps x 29 fields with symbolic optional values in the rounding-error model (value/label/None/frame "
                                    "obligations); route check on concrete in-range messages; database unit scan over %d fields" % (len(jobs), nflds))
    rep.assumptions = ["values within +-1e7"]
    return rep.finish(replay)


def replay(r):
    from .plain import plain
    N = plain()
    D = db()
    PQ = N.consts.PhysicalQuantities
    if r["kind"] == "units":
        prefs = {PQ[k]: u for k, u in r["prefs"]}
        dec = N.decoder.NMEA2000Decoder(preferred_units=prefs)
        qn = r["quantity"]
        problems = []
        vals = [r["value"]] if r.get("value") is not None else [None]
        vals += [300.0, 273.15, 0.0, 101325.0, 1.5, -2.0, 12.345, None]
        # the model's witness is a real number from the rounding-error model; the value that shows the defect on binary64 may be a
        # neighbour: sweep the grid of the finest database resolution of these quantities (0.001) around the witness and around 300
        centre = r["value"] if r.get("value") is not None else 300.0
        sweep = [round(c0 + j * 0.001, 3) for c0 in (centre, 300.0) for j in range(-3000, 3001)]
        quick_qs = [q for q in list(PQ) + [None] if (q.name if q is not None else "NONE") in (qn, "NONE")]
        for val in vals + sweep:
            m = N.message.NMEA2000Message(PGN=1, id="m", description="d")
            fs = []
            for q in (list(PQ) + [None]) if len(problems) == 0 and val in vals[:9] else quick_qs:
                nm = q.name if q is not None else "NONE"
                u0 = {"TEMPERATURE": "K", "PRESSURE": "Pa", "ANGLE": "rad", "SPEED": "m/s"}.get(nm, "u_" + nm)
                fs.append(N.message.NMEA2000Field("id_" + nm, "Name", "desc", u0, val, ("RAW", nm), q, N.consts.FieldTypes.NUMBER, False))
            m.fields = fs
            try:
                m.apply_preferred_units(dec.preferred_units)
            except Exception as e:
                return True, "raised %r" % (e,)
            for f in m.fields:
                nm = f.physical_quantities.name if f.physical_quantities is not None else "NONE"
                pref = prefs.get(f.physical_quantities) if f.physical_quantities is not None else None
                u0 = {"TEMPERATURE": "K", "PRESSURE": "Pa", "ANGLE": "rad", "SPEED": "m/s"}.get(nm, "u_" + nm)
                exp = None
                pl = pref.lower() if isinstance(pref, str) else None
                table = {("TEMPERATURE", "c"): ("C", lambda v: v - 273.15, 0.005), ("TEMPERATURE", "f"): ("F", lambda v: (v - 273.15) * 9 / 5 + 32, 0.5),
                         ("PRESSURE", "bar"): ("Bar", lambda v: v / 100000, 0), ("PRESSURE", "psi"): ("PSI", lambda v: v / 6894.76, 0),
                         ("ANGLE", "deg"): ("Deg", lambda v: math.degrees(v), 0.5), ("SPEED", "kts"): ("kts", lambda v: v * 3600 / 1852, 0.05)}
                exp = table.get((nm, pl))
                if exp is None:
                    if f.value != val or f.unit_of_measurement != u0:
                        problems.append("%s changed to %r %r without a recognised preference" % (nm, f.value, f.unit_of_measurement))
                else:
                    if f.unit_of_measurement != exp[0]:
                        problems.append("%s unit %r" % (nm, f.unit_of_measurement))
                    if val is None:
                        if f.value is not None:
                            problems.append("%s None became %r" % (nm, f.value))
                    elif f.value is None or abs(f.value - exp[1](val)) > exp[2] + 1e-9 * abs(exp[1](val)) + 1e-9:
                        problems.append("%s %r -> %r, exact %r" % (nm, val, f.value, exp[1](val)))
                if f.raw_value != ("RAW", nm) or f.id != "id_" + nm:
                    problems.append("%s other attributes changed" % nm)
            if problems:
                break
        return bool(problems), "; ".join(problems[:3])
    if r["kind"] == "dbunit":
        p = [q for q in D.pgns if q.id == r["def"]][0]
        f = [x for x in p.fields if x.id == r["field"]][0]
        fn = N.pgns.__dict__["decode_pgn_%s" % D.func_suffix(p)]
        from .wire import match_payload
        pl = int.from_bytes(match_payload(p), "little")
        sig = numkernel.Sig(f)
        raw = 100
        pl = (pl & ~(((1 << f.len) - 1) << f.off)) | (raw << f.off)
        for g in p.fields:          # keep the other numeric fields decodable
            if g is not f and g.res is not None and g.fixed and g.type in ("NUMBER", "DURATION"):
                lo, hi = numkernel.Sig(g).raw_range()
                rg = max(lo or 0, 0)
                if g.match is None:
                    pl = (pl & ~(((1 << g.len) - 1) << g.off)) | ((rg & ((1 << g.len) - 1)) << g.off)
        try:
            m0 = fn(pl)
            m1 = fn(pl)
        except Exception as e:
            return None, "sample payload not decodable: %r" % (e,)
        m1.apply_preferred_units({PQ[f.pq]: {"TEMPERATURE": "c", "PRESSURE": "bar", "ANGLE": "deg", "SPEED": "kts"}[f.pq]})
        i = p.fields.index(f)
        v0, v1 = m0.fields[i].value, m1.fields[i].value
        return (v0 is not None and v1 != v0 and f.unit.lower() == "deg"), "%s.%s: database unit %r, value %r becomes %r %r" % (p.id, f.id, f.unit, v0, v1, m1.fields[i].unit_of_measurement)
    if r["kind"] == "pair":
        A = [q for q in D.pgns if q.id == r["a"]][0]
        B = [q for q in D.pgns if q.id == r["b"]][0]
        prefs = {PQ.TEMPERATURE: "C", PQ.PRESSURE: "PSI", PQ.ANGLE: "Deg", PQ.SPEED: "KTS"}
        bad = pair_problem(N, D, A, B, prefs, {"TEMPERATURE": "C", "PRESSURE": "PSI", "ANGLE": "Deg", "SPEED": "kts"})
        return bool(bad), bad or "converted by its own layout"
    if r["kind"] == "route":
        from datetime import datetime
        p = [q for q in D.pgns if q.id == r["def"]][0]
        body = bytes.fromhex(r["payload"])
        prefs = {PQ.TEMPERATURE: "C", PQ.PRESSURE: "PSI", PQ.ANGLE: "Deg", PQ.SPEED: "KTS"}
        dec = N.decoder.NMEA2000Decoder(preferred_units=prefs)
        TS = datetime(2020, 1, 1)
        if r["route"] == "frames":
            m = None
            for fr in N.encoder.NMEA2000Encoder()._encode_fast_message(p.pgn, 3, 7, 255, body):
                m = dec._decode(p.pgn, 3, 7, 255, TS, bytes(fr[::-1]), b"")
        else:
            m = dec._decode(p.pgn, 3, 7, 255, TS, body[::-1], b"", r["route"] == "combined")
        ref = N.decoder.NMEA2000Decoder(preferred_units=prefs)._decode(p.pgn, 3, 7, 255, TS, body[::-1], b"", True)
        if m is None:
            return True, "no message via %s" % r["route"]
        diff = [(a.id, a.value, a.unit_of_measurement, b.value, b.unit_of_measurement) for a, b in zip(m.fields, ref.fields)
                if (a.value, a.unit_of_measurement) != (b.value, b.unit_of_measurement)]
        conv_units = {"C", "PSI", "Deg", "kts"}
        unconverted = [a.id for a, fd in zip(m.fields, p.fields) if fd.pq in ("TEMPERATURE", "PRESSURE", "ANGLE", "SPEED") and a.value is not None and a.unit_of_measurement not in conv_units]
        return bool(diff or unconverted), "differs from pre-assembled route: %r; unconverted: %r" % (diff[:3], unconverted[:3])
    return None, "unknown"
