"""C09 - encoding never silently corrupts a value.
(K) per numeric signature: the real encode_number over an arbitrary real/int input in the rounding-error model:
    accepted => result is an in-field tick count within half a step of the input and not the 'not available' code;
    None => 'not available' code; beyond the representable interval => ValueError.
(D) per encodable definition: the real encode_pgn_* with every kernel result replaced by a fresh symbolic integer:
    each field's bits land at the database position, masked to the database width, independent of all other
    fields (locality), the kernel is called with the database's width/sign/resolution, a raising kernel surfaces.
(M) every field removed in turn => ValueError (concrete enumeration, complete over definitions x fields).
(H) encoder instances carry no state between messages of different definitions (history length 1)."""
import os
from fractions import Fraction
import z3

from . import numkernel, c02
from .c01 import Harness, layout
from .common import Report, guarded, merge_part
from .db import db
from .explorer import explore, prove, satisfiable, Unsupported, EX
from .numkernel import Sig, run_kernel
from .proxies import SymInt, SymOpt, SymBool, SymBytes, truth, int_from_bytes, is_symbolic, register_symbolic
from .realmodel import SymIntZ, SymReal, ZBytes, real_context, rv
from . import proxies as P

PID = "C09"
_G = {}


def enc_sig_key(L, signed, res):
    return (L, bool(signed), repr(res))


def check_encode_number(utils, L, signed, res_py, res_exact, tier):
    """kernel obligations for one (bit length, signedness, resolution)"""
    out = []
    lo = -(1 << (L - 1)) if signed else 0
    hi = ((1 << (L - 1)) - 2) if signed else ((1 << L) - 2)
    sentinel = ((1 << (L - 1)) - 1) if signed else ((1 << L) - 1)
    if L <= 3:
        sentinel = (1 << L) - 1
    tag = "encode_number[%d-bit %s x%s]" % (L, "signed" if signed else "unsigned", res_exact)
    for kind in ("float", "int"):
        with real_context() as c:
            if kind == "float":
                v = z3.Real("v")
                val = SymReal(v)
                vt = v
            else:
                vi = z3.Int("vi")
                val = SymIntZ(vi)
                vt = z3.ToReal(vi)
            r, rc, exc = run_kernel(utils.encode_number, val, L, signed, res_py)
            cons = list(c.cons)
        if r is None:
            out.append(("always-raises", "sat", None))
            continue
        rt = r.t if isinstance(r, SymIntZ) else z3.IntVal(int(r))
        # signed tick count represented by the result
        k = z3.If(rt >= (1 << (L - 1)), rt - (1 << L), rt) if signed else rt
        step = rv(res_exact)
        half = rv(res_exact / 2)
        slack = rv(Fraction(1, 2 ** 40)) * z3.If(vt >= 0, vt, -vt) + rv(res_exact * Fraction(1, 2 ** 40))
        diff = z3.ToReal(k) * step - vt
        accepted = z3.Not(rc)
        c1 = z3.And(rt >= 0, rt < (1 << L), k >= lo, k <= hi,
                    diff <= half + slack, -diff <= half + slack)
        st, m = prove(c1, cons + [accepted], label="K1 accepted=>faithful " + tag + "/" + kind)
        out.append(("accepted-but-unfaithful/" + kind, st, str(m.eval(vt, True)) if st == "sat" else None))
        # beyond the representable interval => rejected
        q = vt / step
        mg = 1 + (1 << max(0, L - 50))     # fields wider than 48 bits: binary64 cannot resolve single ticks near the ends
        st, m = prove(rc, cons + [z3.Or(q > hi + mg, q < lo - mg)], label="K3 out-of-range=>raise " + tag + "/" + kind)
        out.append(("out-of-range-accepted/" + kind, st, str(m.eval(vt, True)) if st == "sat" else None))
        # clearly inside => accepted (no spurious rejection)
        st, m = prove(z3.Not(rc), cons + [q <= hi - mg, q >= lo + mg] if hi - mg >= lo + mg else cons + [z3.BoolVal(False)],
                      label="K4 in-range=>accepted " + tag + "/" + kind)
        out.append(("in-range-rejected/" + kind, st, str(m.eval(vt, True)) if st == "sat" else None))
    # None -> not-available code
    try:
        rn = utils.encode_number(None, L, signed, res_py)
    except Exception as e:
        rn = e
    out.append(("none-code", "unsat" if rn == sentinel else "sat", repr(rn)))
    return out


class Stub:
    """opaque kernel result: fresh bit-vector (wider than any field) and a fresh 'raises' flag"""
    n = 0

    def __init__(self, name, args, kw=None):
        Stub.n += 1
        self.name, self.args, self.kw = name, args, kw or {}
        self.var = z3.BitVec("k%d" % Stub.n, 80)
        self.raises = z3.Bool("kr%d" % Stub.n)


@guarded
def _def_worker(idxs):
    from . import explorer
    explorer.STATS.__init__()
    D, H = _G["D"], _G["H"]
    R = H.R
    ns = H.ns
    rep = Report(PID, _G["tier"], 0, "other")
    sigs = {}
    nd = nf = 0
    for i in idxs:
        p = D.pgns[i]
        suffix = D.func_suffix(p)
        enc_fn = ns["encode_pgn_%s" % suffix]
        dec_fn = ns["decode_pgn_%s" % suffix]
        base = 0
        for g in p.fields:
            base |= c02.base_raw(g) << g.off
        nd += 1
        stubs = []

        def mk_stub(name):
            def f(*a, **kw):
                s = Stub(name, a, kw)
                stubs.append(s)
                ex = EX()
                ex.deferred.append((s.raises, ValueError("kernel raised")))
                nbits = a[1] if name in ("encode_number", "encode_time") and len(a) > 1 and isinstance(a[1], int) else (32 if name == "encode_float" else None)
                if nbits is not None:
                    # post-condition of the kernel (proved in (K)): a non-raising call returns 0 <= r < 2^bit_length
                    ex.assume(z3.And(s.var >= 0, s.var < z3.BitVecVal(1 << nbits, 80)))
                return SymInt(s.var)     # signed 80-bit: deliberately wider than any field
            return f
        saved = {k: ns[k] for k in ("encode_number", "encode_float", "encode_time", "encode_date")}
        for k in saved:
            ns[k] = mk_stub(k)
        try:
            m0 = dec_fn(base)
            # symbolic inputs: numbers are opaque (the stub ignores them), raw inputs of LOOKUP/DATE/TIME and RESERVED
            # values are arbitrary in-width integers (the stated validity predicate)
            ins = {}
            for fld, f in zip(m0.fields, p.fields):
                v = z3.BitVec("in%d" % f.order, f.len)
                ins[f.order] = v
                if f.type in ("LOOKUP", "DATE"):
                    fld.raw_value = SymInt(z3.ZeroExt(1, v), f.len)
                    fld.value = None
                elif f.type == "RESERVED":
                    fld.value = SymInt(z3.ZeroExt(1, v), f.len)
                    fld.raw_value = fld.value
                elif f.type in ("TIME", "DURATION"):
                    fld.raw_value = None      # value path: goes through encode_time (stubbed)
                    fld.value = None
                else:
                    fld.value = 1.0
                    fld.raw_value = 1.0
            paths, ex = explore(lambda: (list(stubs.clear() or []), enc_fn(m0))[1], max_paths=64)
        except Unsupported as e:
            rep.inconc("%s: %s" % (p.id, e))
            continue
        finally:
            for k, v in saved.items():
                ns[k] = v
        for pa in paths:
            if pa.kind != "return":
                st, mm = satisfiable(pa.cond())
                if st == "sat":
                    rep.violation({"kind": "encoder-raises", "def": p.id}, "%s: encoder raises %r on valid inputs" % (p.id, pa.value),
                                  {"kind": "encode_base", "def": p.id})
                continue
            b = pa.value
            if isinstance(b, P.SymBytesVar):
                data = b.value
            else:
                data = SymInt.lift(int_from_bytes(b, "little"))
                if p.length and len(b) != p.length:
                    rep.violation({"kind": "length", "def": p.id}, "%s: %d bytes, definition says %d" % (p.id, len(b), p.length),
                                  {"kind": "encode_base", "def": p.id})
            W = max([f.off + f.len for f in p.fields]) + 2
            dt = data.ext(max(data.w, W))
            # stubs are called in field order for the kernel-typed fields
            kfields = [f for f in p.fields if f.type in ("NUMBER", "PGN", "FLOAT", "TIME", "DURATION")]
            if len(stubs) != len(kfields):
                rep.violation({"kind": "kernel-calls", "def": p.id}, "%s: %d kernel calls for %d numeric fields" % (p.id, len(stubs), len(kfields)),
                              {"kind": "encode_base", "def": p.id})
                continue
            src = {}
            for f, s in zip(kfields, stubs):
                src[f.order] = s
                if f.type in ("NUMBER", "PGN"):
                    exp_args = (f.len, f.signed, f.flt("Resolution"))
                    got = tuple(s.args[1:4])
                    sigs.setdefault(enc_sig_key(*exp_args), (f.len, f.signed, f.flt("Resolution"), f.res, (p.id, f.id)))
                    if s.name != "encode_number" or got != exp_args:
                        rep.violation({"kind": "kernel-args", "def": p.id, "field": f.id},
                                      "%s.%s: %s called with %r, database says %r" % (p.id, f.id, s.name, got, exp_args),
                                      {"kind": "encode_args", "def": p.id, "field": f.id})
            for f, s_ in zip(kfields, stubs):
                if f.type == "TIME":
                    got = (s_.name, s_.args[1] if len(s_.args) > 1 else None,
                           bool(s_.args[2]) if len(s_.args) > 2 else bool(s_.kw.get("signed", False)),
                           s_.kw.get("resolution", s_.args[3] if len(s_.args) > 3 else 1))
                    exp = ("encode_time", f.len, f.signed, f.flt("Resolution"))
                    if got != exp:
                        rep.violation({"kind": "kernel-args", "def": p.id, "field": f.id},
                                      "%s.%s: %r, database says %r" % (p.id, f.id, got, exp),
                                      {"kind": "time_value", "def": p.id, "field": f.id, "h": 1, "m": 2, "s": 3} if f.type == "TIME"
                                      else {"kind": "encode_args", "def": p.id, "field": f.id})
            # post-condition of the kernels (proved in (K) for encode_number; 32-bit pattern for encode_float;
            # seconds of a day or the not-available code for encode_time): a non-raising kernel returns 0 <= r < 2^len
            post = []
            for f, s in zip(kfields, stubs):
                post.append(z3.And(s.var >= 0, s.var < z3.BitVecVal(1 << f.len, 80)))
            for f in p.fields:
                nf += 1
                T = z3.simplify(z3.Extract(f.off + f.len - 1, f.off, dt))
                own = z3.Extract(f.len - 1, 0, src[f.order].var) if f.order in src else ins[f.order]
                st, mm = prove(T == own, list(pa.pc) + post, label="placement/%s" % f.type)
                if st == "sat":
                    rep.violation({"kind": "placement", "def": p.id, "field": f.id},
                                  "%s.%s: payload bits %d..%d are not the field's encoded value (or depend on another field)" % (p.id, f.id, f.off, f.off + f.len - 1),
                                  {"kind": "encode_field", "def": p.id, "field": f.id})
                elif st == "unknown":
                    rep.inconc("%s.%s placement" % (p.id, f.id))
            # bits outside every field are zero
            covered = 0
            for f in p.fields:
                covered |= ((1 << f.len) - 1) << f.off
            gaps = ~covered & ((1 << dt.size()) - 1) & ((1 << (dt.size() - 1)) - 1)
            if gaps:
                st, mm = prove((dt & z3.BitVecVal(gaps, dt.size())) == 0, list(pa.pc) + post, label="gaps-zero")
                if st == "sat":
                    rep.violation({"kind": "gap-bits", "def": p.id}, "%s: bits outside all fields are not zero" % p.id, {"kind": "encode_base", "def": p.id})
        # (T) a TIME field given as a `time` value (no raw value): the real encode_time kernel, called with the
        # arguments checked in (D), yields exactly seconds/resolution ticks (rounding-error model, all h:m:s)
        from .envmodels import SymTime
        for idx, f in enumerate(p.fields):
            if f.type not in ("TIME", "DURATION"):       # both go through encode_time when the value is given as a `time`
                continue
            key = ("encode_time", f.len, f.signed, repr(f.flt("Resolution")))
            if key in _G.setdefault("time_done", set()):
                continue
            _G["time_done"].add(key)
            with real_context() as c:
                hv, mv, sv = z3.Int("h"), z3.Int("mi"), z3.Int("se")
                dom = [hv >= 0, hv < 24, mv >= 0, mv < 60, sv >= 0, sv < 60]
                try:
                    kk, krc, _e = run_kernel(H.real["encode_time"], SymTime(SymIntZ(hv), SymIntZ(mv), SymIntZ(sv)), f.len, f.signed, f.flt("Resolution"))
                except (Unsupported, TypeError) as e:
                    rep.inconc("%s.%s encode_time kernel: %s" % (p.id, f.id, e))
                    continue
                cons = list(c.cons)
            if kk is None:
                continue          # always rejected: allowed by the property
            secs = hv * 3600 + mv * 60 + sv
            kt = kk.t if isinstance(kk, SymIntZ) else z3.IntVal(int(kk))
            half = rv(f.res / 2)
            dd = z3.ToReal(kt) * rv(f.res) - z3.ToReal(secs)
            inv = 1 / f.res
            maxval = ((1 << (f.len - 1)) - 2) if f.signed else ((1 << f.len) - 2)
            if inv.denominator == 1:
                faithful = kt == secs * int(inv)          # whole number of ticks per second: exact tick count
                fits = secs * int(inv) <= maxval
            else:
                faithful = z3.And(dd <= half, -dd <= half)
                fits = z3.ToReal(secs) <= rv(f.res * maxval) + half
            sigtxt = "%d-bit%s x%s" % (f.len, " signed" if f.signed else "", f.res)
            # (a) a time of day that the field can represent is encoded as seconds/resolution ticks
            st, mm = prove(z3.Implies(fits, z3.And(z3.Not(krc), faithful, kt >= 0, kt <= maxval)), dom + cons, label="encode_time ticks")
            if st == "sat":
                hh, mi, se = (mm.eval(x_, True).as_long() for x_ in (hv, mv, sv))
                rep.violation({"kind": "time-value-path", "sig": sigtxt},
                              "%s.%s: time %02d:%02d:%02d given as a value (no raw value) is not encoded as seconds/resolution ticks" % (p.id, f.id, hh, mi, se),
                              {"kind": "time_value", "def": p.id, "field": f.id, "h": hh, "m": mi, "s": se})
            elif st == "unknown":
                rep.inconc("%s.%s encode_time kernel undecided" % (p.id, f.id))
            # (b) a time of day beyond the field's largest tick count is rejected, not wrapped by the caller's mask
            st, mm = prove(z3.Implies(z3.Not(fits), krc), dom + cons, label="encode_time overflow")
            if st == "sat":
                hh, mi, se = (mm.eval(x_, True).as_long() for x_ in (hv, mv, sv))
                rep.violation({"kind": "time-value-overflow", "sig": sigtxt},
                              "%s.%s: time %02d:%02d:%02d given as a value needs more than the field's %d ticks and is encoded (wrapped) instead of rejected" % (p.id, f.id, hh, mi, se, maxval),
                              {"kind": "time_value", "def": p.id, "field": f.id, "h": hh, "m": mi, "s": se, "expect": "reject"})
            elif st == "unknown":
                rep.inconc("%s.%s encode_time overflow undecided" % (p.id, f.id))
        # (N) an absent TIME/DURATION value is written as the field's not-available pattern (concrete, per field)
        enc = R.encoder.NMEA2000Encoder()
        for idx, f in enumerate(p.fields):
            if f.type not in ("TIME", "DURATION") or f.len < 2:
                continue
            m1 = dec_fn(base)
            m1.fields[idx].value = None
            m1.fields[idx].raw_value = None
            try:
                b1 = int.from_bytes(enc._call_encode_function(m1), "little")
            except ValueError:
                continue
            if (b1 >> f.off) & ((1 << f.len) - 1) != Sig(f).sentinel:
                rep.violation({"kind": "absent-not-na", "def": p.id, "field": f.id},
                              "%s.%s: an absent value is encoded as %#x, not the not-available pattern %#x" % (p.id, f.id, (b1 >> f.off) & ((1 << f.len) - 1), Sig(f).sentinel),
                              {"kind": "absent", "def": p.id, "field": f.id})
        # (M) every field removed in turn => ValueError
        for idx, f in enumerate(p.fields):
            m1 = dec_fn(base)
            del m1.fields[idx]
            try:
                enc._call_encode_function(m1)
                rep.violation({"kind": "missing-field-accepted", "def": p.id, "field": f.id}, "%s: encodes although field %s is missing" % (p.id, f.id),
                              {"kind": "missing_field", "def": p.id, "field": f.id})
            except ValueError:
                pass
            except Exception as e:
                rep.violation({"kind": "missing-field-wrong-error", "def": p.id, "field": f.id}, "%s: missing %s raises %r, not ValueError" % (p.id, f.id, e),
                              {"kind": "missing_field", "def": p.id, "field": f.id})
        # (R) what is encoded is the message as it is NOW: after a first encode, a field object is replaced / a new list of
        # equal length is assigned / one field is removed and another appended - the payload must be that of a fresh message
        # with the same content (resp. a missing field must be reported)
        bad_r = reencode_problem(R, dec_fn, base, p)
        if bad_r:
            rep.violation({"kind": "stale-after-field-change", "def": p.id}, "%s: %s" % (p.id, bad_r), {"kind": "reencode", "def": p.id})
        if len(rep.samples) < 2:
            rep.sample({"definition": p.id, "fields": len(p.fields), "kernel_calls": len(stubs)})
    return dict(violations=rep.violations, inconclusive=rep.inconclusive, errors=rep.harness_errors, sigs=sigs, nd=nd, nf=nf,
                samples=rep.samples, stats=explorer.STATS)


def reencode_problem(M, dec_fn, base, p):
    """concrete: encode, change the field list, encode again; compare with a fresh message of the same content"""
    Field = M.message.NMEA2000Field
    enc = M.encoder.NMEA2000Encoder()

    def payload(m):
        try:
            return bytes(enc._call_encode_function(m))
        except ValueError as e:
            return ("ValueError",)
    nums = [i for i, f in enumerate(p.fields) if f.type == "NUMBER" and f.fixed and f.res is not None and f.len >= 4 and f.match is None]
    if not nums:
        return None
    i = nums[0]
    f = p.fields[i]
    sg = Sig(f)
    lo, hi = sg.raw_range()
    r0 = (base >> f.off) & ((1 << f.len) - 1)
    cand = [v for v in (1, 2, 3, 5) if (lo is None or v >= lo) and (hi is None or v <= hi) and v != r0 and v != sg.sentinel]
    if not cand:
        return None
    newval = float(cand[0] * f.res + f.offset) if f.res != 1 else int(cand[0] + f.offset)

    def clone(g, value=None, change=False):
        return Field(g.id, g.name, g.description, g.unit_of_measurement, newval if change else g.value, None if change else g.raw_value,
                     g.physical_quantities, g.type, g.part_of_primary_key)
    # reference: fresh message built with the new value before any encode
    ref = dec_fn(base)
    ref.fields[i] = clone(ref.fields[i], change=True)
    want = payload(ref)
    if want == ("ValueError",):
        return None
    # (i) replace one field object after a first encode
    m = dec_fn(base)
    first = payload(m)
    m.fields[i] = clone(m.fields[i], change=True)
    got = payload(m)
    if got != want:
        return "after replacing field %s by a new object (value %r) the payload is %s, a fresh message with the same content gives %s" % (
            f.id, newval, got.hex() if isinstance(got, bytes) else got, want.hex())
    # (ii) assign a new list of the same length
    m = dec_fn(base)
    payload(m)
    m.fields = [clone(g, change=(k == i)) for k, g in enumerate(m.fields)]
    got = payload(m)
    if got != want:
        return "after assigning a new field list (field %s = %r) the payload is %s, a fresh message gives %s" % (f.id, newval, got.hex() if isinstance(got, bytes) else got, want.hex())
    # (iii) remove one field and append an unrelated one: the missing field must be reported
    m = dec_fn(base)
    payload(m)
    gone = m.fields[i]
    del m.fields[i]
    m.fields.append(Field("noSuchField", "x", None, None, 1, 1, None, gone.type, False))
    got = payload(m)
    if got != ("ValueError",):
        return "after removing field %s (and appending an unrelated field) the message is still encoded: %s" % (f.id, got.hex() if isinstance(got, bytes) else got)
    return None


@guarded
def _sig_worker(item):
    from . import explorer
    explorer.STATS.__init__()
    L, signed, res_py, res_exact, where = item
    H = _G["H"]
    try:
        return item, check_encode_number(H.R.utils, L, signed, res_py, res_exact, _G["tier"]), None, explorer.STATS
    except Unsupported as e:
        return item, None, str(e), explorer.STATS


def run(tier, seed):
    import multiprocessing as mp
    from . import explorer
    rep = Report(PID, tier, seed, "other")
    D = db()
    H = Harness()
    _G.update(D=D, H=H, tier=tier)
    c02._G.update(D=D, H=H, tier=tier, fp_fields=[], seed=seed)
    enc = [i for i, p in enumerate(D.pgns) if c02.encodable(p)]
    enc = [i for i in enc if not (len(D.groups[D.pgns[i].pgn]) > 1 and not D.multi(D.pgns[i].pgn)
                                  and D.pgns[i] is not ([q for q in D.groups[D.pgns[i].pgn] if not q.fallback] or D.groups[D.pgns[i].pgn])[0])]
    rep.functions = ["utils.encode_number (kernel, rounding-error model)", "pgns.encode_pgn_* of %d encodable definitions" % len(enc),
                     "message.get_field_by_id", "encoder.NMEA2000Encoder._call_encode_function", "pgns.lookup_encode_* tables"]
    rep.bounds = {"numbers": "any real / any integer input (unbounded) per signature", "other inputs": "raw values within the field width",
                  "definitions": len(enc), "history": "one earlier message on the same encoder"}
    rep.stubs = ["(D): encode_number/encode_float/encode_time/encode_date replaced by fresh 80-bit symbolic results + fresh raise flags"]
    rep.outside = ["decode-side database range checks (C01): the oracle is the tick count placed in the payload",
                   ]
    nproc = max(1, min(16, os.cpu_count() or 1))
    chunks = [enc[k::nproc] for k in range(nproc)]
    ctx = mp.get_context("fork")
    sigs = {}
    nd = nf = 0
    with ctx.Pool(nproc) as pool:
        for part in pool.imap_unordered(_def_worker, chunks, chunksize=1):
            for v in part["violations"]:
                rep.violation(*v)
            rep.inconclusive += part["inconclusive"]
            rep.harness_errors += part["errors"]
            for k, v in part["sigs"].items():
                sigs.setdefault(k, v)
            nd += part["nd"]
            nf += part["nf"]
            for s in part["samples"]:
                rep.sample(s)
            explorer.STATS.merge(part["stats"])
        for item, res, err, st_ in pool.imap_unordered(_sig_worker, [sigs[k] for k in sorted(sigs)], chunksize=1):
            explorer.STATS.merge(st_)
            L, signed, res_py, res_exact, where = item
            desc = "%d-bit %s x%s" % (L, "signed" if signed else "unsigned", res_exact)
            if err:
                rep.inconc("encode_number %s: %s" % (desc, err))
                continue
            for kind, st, wit in res:
                if st == "unknown":
                    rep.inconc("encode_number %s / %s: no answer" % (desc, kind))
                elif st == "sat":
                    rep.violation({"kind": "encode-number-" + kind.split("/")[0], "sig": desc},
                                  "encode_number %s: %s (witness %s; first use %s.%s)" % (desc, kind, wit, where[0], where[1]),
                                  {"kind": "encode_number", "L": L, "signed": signed, "res": res_py, "what": kind, "witness": wit})
        # (H) encoder history independence
        pairs = []
        for pgn, group in D.groups.items():
            g = [D.pgns.index(q) for q in group if D.pgns.index(q) in enc]
            if D.multi(pgn) and len(g) >= 2:
                pairs += list(zip(g, g[1:])) + [(g[-1], g[0])]
        if tier == "quick":
            pairs = pairs[::3] if len(pairs) > 40 else pairs
        for part in pool.imap_unordered(c02._history_worker, pairs, chunksize=2):
            for key, text, rp in part["violations"]:
                rep.violation(key, text, rp)
            rep.inconclusive += part["inconclusive"]
            explorer.STATS.merge(part["stats"])
    # lookup encode tables are the inverse of the decode tables (concrete, complete)
    ns = H.ns
    for name, table in D.lookups.items():
        encd = ns.get("lookup_dict_encode_%s" % name)
        if encd is None:
            continue
        for val, nm in table.items():
            if table_inverse_ok(table, encd, val, nm):
                continue
            rep.violation({"kind": "lookup-encode", "table": name}, "lookup_encode_%s(%r) = %r, decode table maps %r to %r" % (name, nm, encd.get(nm), val, nm),
                          {"kind": "lookup", "table": name, "name": nm, "value": val})
    # (Dt) a DATE given as a `date` value (no raw value): the real encode_date on the date the real decode_date returns for a
    # symbolic day count gives that day count back, over the whole 16-bit DATE domain (calendar arithmetic as terms over the ordinal)
    try:
        U = H.R.utils
        days = SymInt.var("days", 20)
        ddom = [days.t >= 0, days.t <= 65532]
        dpaths, _ex = explore(lambda: U.encode_date(U.decode_date(days)), max_paths=64, assumptions=ddom)
        for pa in dpaths:
            st0, m0 = satisfiable(z3.And(pa.cond(), *ddom))
            if st0 != "sat":
                continue
            if pa.kind != "return":
                rep.violation({"kind": "date-value-path"}, "encode_date(decode_date(%d)) raises %r" % (m0.eval(days.t, True).as_long(), pa.value),
                              {"kind": "date_value", "days": m0.eval(days.t, True).as_long()})
                continue
            st, mm = prove(truth(SymInt.lift(pa.value) == days), ddom + list(pa.pc), label="encode_date o decode_date")
            if st == "sat":
                dv = mm.eval(days.t, True).as_long()
                rep.violation({"kind": "date-value-path"}, "a DATE given as a value (no raw value): day %d since 1970 is not encoded as %d" % (dv, dv), {"kind": "date_value", "days": dv})
            elif st == "unknown":
                rep.inconc("encode_date o decode_date undecided")
    except Unsupported as e:
        rep.inconc("encode_date o decode_date: %s" % (e,))
    rep.count("definitions", nd)
    rep.count("fields", nf)
    rep.count("encode_number_signatures", len(sigs))
    rep.coverage.update(explanation="bounded symbolic verification: %d encode_number signatures over unbounded real/integer inputs in the rounding-error "
                                    "model; %d definitions / %d fields for placement, masking and locality (QF_BV); missing-field enumeration" % (len(sigs), nd, nf))
    rep.assumptions = ["LOOKUP/DATE raw inputs and RESERVED values lie within the field width (stated validity predicate)",
                       "binary64 inputs are modelled as arbitrary reals (over-approximation)"]
    return rep.finish(replay)


def table_inverse_ok(table, encd, val, nm):
    """names may repeat in a database table: the encoder may pick any value that decodes to the same name"""
    got = encd.get(nm)
    return got is not None and table.get(got) == nm


def replay(r):
    from .plain import plain
    N = plain()
    D = db()
    k = r["kind"]
    if k == "history":
        return c02.replay(r)
    if k == "lookup":
        encd = N.pgns.__dict__.get("lookup_dict_encode_%s" % r["table"], {})
        got = encd.get(r["name"])
        return not (got is not None and D.lookups[r["table"]].get(got) == r["name"]), "encode table gives %r" % (got,)
    if k == "encode_number":
        return replay_encode_number(N, r)
    if k == "date_value":
        try:
            got = N.utils.encode_date(N.utils.decode_date(r["days"]))
        except Exception as e:
            return True, "raised %r" % (e,)
        return got != r["days"], "encode_date(decode_date(%d)) = %r" % (r["days"], got)
    p = [q for q in D.pgns if q.id == r["def"]][0]
    suffix = D.func_suffix(p)
    dec, enc = N.pgns.__dict__["decode_pgn_%s" % suffix], N.encoder.NMEA2000Encoder()
    base = 0
    for g in p.fields:
        base |= c02.base_raw(g) << g.off
    if k == "time_value":
        import datetime
        idx = [f.id for f in p.fields].index(r["field"])
        m = dec(base)
        t = datetime.time(r["h"], r["m"], r["s"])
        m.fields[idx].raw_value = None
        m.fields[idx].value = t
        try:
            b = enc._call_encode_function(m)
        except ValueError:
            return False, "rejected"
        try:
            back = dec(int.from_bytes(b, "little")).fields[idx].value
        except Exception as e:
            return True, "encodes, but the payload does not decode: %r" % (e,)
        want = r["h"] * 3600 + r["m"] * 60 + r["s"]
        got = (back.hour * 3600 + back.minute * 60 + back.second) if isinstance(back, datetime.time) else back
        f_ = p.fields[idx]
        bad = got is None or abs(float(got) - want) > float(f_.res) / 2 + 1e-9
        return bad, "%s (%d s) encodes and decodes back as %s" % (t, want, back)
    if k == "reencode":
        bad = reencode_problem(N, dec, base, p)
        return bool(bad), bad or "re-encoding after field changes matches a fresh message"
    if k == "absent":
        idx = [f.id for f in p.fields].index(r["field"])
        f = p.fields[idx]
        m = dec(base)
        m.fields[idx].value = None
        m.fields[idx].raw_value = None
        try:
            b1 = int.from_bytes(enc._call_encode_function(m), "little")
        except ValueError:
            return False, "rejected"
        got = (b1 >> f.off) & ((1 << f.len) - 1)
        return got != Sig(f).sentinel, "absent value encoded as %#x" % got
    if k == "missing_field":
        m = dec(base)
        idx = [f.id for f in p.fields].index(r["field"])
        del m.fields[idx]
        try:
            enc._call_encode_function(m)
            return True, "encoded although %s is missing" % r["field"]
        except ValueError:
            return False, "ValueError"
        except Exception as e:
            return True, "raised %r" % (e,)
    if k in ("encode_field", "encode_args", "encode_base"):
        # differential probe: vary only this field's input and observe which payload bits move / where the value lands
        import random
        rnd = random.Random(1)
        problems = []
        fields = p.fields if k == "encode_base" else [f for f in p.fields if f.id == r["field"]]
        try:
            m = dec(base)
            b0 = int.from_bytes(enc._call_encode_function(m), "little")
        except Exception as e:
            return True, "base message does not encode: %r" % (e,)
        for f in fields:
            idx = p.fields.index(f)
            for _ in range(40):
                raw = rnd.getrandbits(f.len)
                pl = (base & ~(((1 << f.len) - 1) << f.off)) | (raw << f.off)
                try:
                    m = dec(pl)
                except Exception:
                    continue
                try:
                    b = int.from_bytes(enc._call_encode_function(m), "little")
                except Exception as e:
                    continue
                mask = ((1 << f.len) - 1) << f.off
                if (b ^ b0) & ~mask:
                    problems.append("%s=%#x moves bits outside its field" % (f.id, raw))
                if (b & mask) >> f.off != raw and f.type not in ("TIME", "DURATION"):
                    problems.append("%s=%#x lands as %#x" % (f.id, raw, (b & mask) >> f.off))
                if problems:
                    break
        return bool(problems), "; ".join(problems[:3])
    return None, "unknown replay kind"


def replay_encode_number(N, r):
    from fractions import Fraction
    L, signed, res = r["L"], r["signed"], r["res"]
    what = r["what"].split("/")[0]
    lo = -(1 << (L - 1)) if signed else 0
    hi = ((1 << (L - 1)) - 2) if signed else ((1 << L) - 2)
    sentinel = ((1 << (L - 1)) - 1) if signed else ((1 << L) - 1)
    if what == "none-code":
        try:
            return N.utils.encode_number(None, L, signed, res) != (sentinel if L > 3 else (1 << L) - 1), "None code"
        except Exception as e:
            return True, repr(e)
    # the solver's witness is a real number; probe it and the boundary values around the representable interval
    cands = []
    try:
        w = r.get("witness")
        if w is not None:
            w = w.rstrip("?")
            cands.append(float(Fraction(w)))
    except Exception:
        pass
    fr = Fraction(res)
    for k in (hi + 1, hi + 2, lo - 1, lo - 2, hi, lo, hi * 4 + 7, lo * 4 - 7, -1, (1 << L), (1 << L) + 5, -(1 << L)):
        cands += [float(k * fr), float((k + Fraction(1, 4)) * fr), float((k - Fraction(1, 4)) * fr)]
        if isinstance(res, int) and float(k * fr).is_integer():
            cands.append(int(k * fr))
    for v in cands:
        try:
            out = N.utils.encode_number(v, L, signed, res)
            err = None
        except ValueError as e:
            out, err = None, e
        except Exception as e:
            return True, "encode_number(%r) raised %r" % (v, e)
        q = Fraction(v) / fr
        if err is None:
            k = out - (1 << L) if signed and out >> (L - 1) else out
            ok = 0 <= out < (1 << L) and lo <= k <= hi and abs(Fraction(k) * fr - Fraction(v)) <= fr / 2 + abs(Fraction(v)) / 2 ** 40 + fr / 2 ** 40
            if not ok:
                return True, "encode_number(%r, %d, %s, %r) = %d (tick %d) is not a faithful encoding" % (v, L, signed, res, out, k)
        else:
            if lo + 1 <= q <= hi - 1:
                return True, "encode_number(%r) rejected although representable" % (v,)
    return False, "no probing value reproduced it"
