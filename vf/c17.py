"""C17 - the identity hash depends exactly on the message kind and the primary-key fields.
Every generated decoder runs on a symbolic payload through the real _call_decode_function / add_data with
hashlib.md5 modelled as an injective function of the structured text ("rope") it is given.  Per definition the
rope must be: id, then "_" + str(raw value) of exactly the database's primary-key fields, in order; per key-field
kind the raw value is proved to be an injective function of the field's bits (so: equal hashes <=> equal key bits)."""
import os
import z3

from . import loader, numkernel
from .c01 import Harness, layout, SUPPORTED
from .common import Report, guarded, run_jobs
from .db import db
from .explorer import explore, prove, satisfiable, Unsupported, EX
from .loader import SymRope
from .numkernel import Sig, eq_term
from .proxies import SymInt, SymFloat, SymOpt, is_symbolic
from .realmodel import SymIntZ, SymReal, real_context
from . import proxies as P

PID = "C17"
_G = {}


class SymHash:
    """md5(...).hexdigest() of a rope: injective by assumption (no MD5 collisions on these short strings)"""

    def __init__(self, rope):
        self.rope = rope


class _ConcreteHash(str):
    """hexdigest of a concrete text; the text is kept for the check"""
    text = None


class _Md5:
    def __init__(self, data):
        self.data = data

    def hexdigest(self):
        if isinstance(self.data, (bytes, bytearray)):
            import hashlib
            h_ = _ConcreteHash(hashlib.md5(self.data).hexdigest())
            h_.text = bytes(self.data).decode("utf-8", "replace")
            return h_
        return SymHash(self.data)


class _Hashlib:
    @staticmethod
    def md5(data=b""):
        return _Md5(data)


def sx_str(x=""):
    if isinstance(x, SymRope):
        return x
    if is_symbolic(x):
        return SymRope([x])
    return str(x)


SymRope.encode = lambda self, *a: self


def install(R):
    g = R.message.__dict__
    g["str"] = sx_str
    g["hashlib"] = _Hashlib


@guarded
def _worker(idxs):
    from . import explorer
    explorer.STATS.__init__()
    D, H = _G["D"], _G["H"]
    R = H.R
    rep = Report(PID, _G["tier"], 0, "other")
    nd = nk = 0
    kinds = {}
    for i in idxs:
        p = D.pgns[i]
        group = D.groups[p.pgn]
        if len(group) > 1 and not D.multi(p.pgn):
            sel = [q for q in group if not q.fallback]
            if p is not (sel[0] if sel else group[0]):
                continue
        name = "decode_pgn_%s" % D.func_suffix(p)
        fn = H.ns.get(name)
        if fn is None or any(f.type not in SUPPORTED for f in p.fields):
            continue
        if not all(f.fixed for f in p.fields):
            rep.count("definitions_with_variable_length_fields_skipped")
            continue
        pv, fvars, W = layout(p)
        payload = SymInt(z3.ZeroExt(1, pv))
        src, dst, prio = SymInt.var("src", 8), SymInt.var("dst", 8), SymInt.var("prio", 3)
        results = {}

        iso = R.message.IsoName.__new__(R.message.IsoName)
        for k_, v_ in (("unique_number", 1), ("manufacturer_code", None), ("device_instance", 0), ("device_function", "x"), ("device_class", "x"),
                       ("system_instance", 0), ("industry_group", "x"), ("arbitrary_address_capable", False), ("name", 77)):
            setattr(iso, k_, v_)
        nbytes = (W + 7) // 8
        data = P.SymBytes([SymInt(z3.ZeroExt(1, z3.Extract(8 * b_ + 7, 8 * b_, z3.ZeroExt(8 * nbytes - W + 16, pv) if 8 * nbytes > W + 16 else pv)), 8)
                           for b_ in reversed(range(nbytes))])
        match_assume = [fvars[f.order] == z3.BitVecVal(int(f.match), f.len) for f in p.fields if f.match is not None and f.order in fvars and z3.is_const(fvars[f.order])]
        PQ = R.consts.PhysicalQuantities
        prefs_all = {PQ.TEMPERATURE: "C", PQ.ANGLE: "deg", PQ.PRESSURE: "bar", PQ.SPEED: "kts"}

        def h():
            out = []
            for mapping, prefs, who in ((True, {}, None), (True, prefs_all, iso), (False, {}, iso), (False, prefs_all, None)):
                dec = R.decoder.NMEA2000Decoder(build_network_map=mapping, preferred_units=prefs)
                H.calls = []
                from .c01 import StopDefinition
                try:
                    m = dec._call_decode_function(p.pgn, prio, src, dst, None, data, who, b"")
                except StopDefinition:
                    m = None
                if m is None or m.id != p.id:
                    from .explorer import PathAbort
                    raise PathAbort("payload selects another definition")
                keys_raw = [(f.id, f.raw_value) for f in m.fields if f.part_of_primary_key]
                out.append((mapping, m.hash, keys_raw, m.id, [f.id for f in m.fields], "full" if len(m.fields) == len(p.fields) else "prefix"))
            return out
        try:
            paths, ex = explore(h, max_paths=64, assumptions=match_assume)
        except Unsupported as e:
            rep.inconc("%s: %s" % (p.id, e))
            continue
        nd += 1
        dbkeys = [f for f in p.fields if f.key]
        for pa in paths:
            if pa.kind != "return":
                continue
            for mapping, hsh, keys_raw, mid, fids, mode in pa.value:
                if not mapping:
                    if hsh is not None:
                        rep.violation({"kind": "hash-without-mapping", "def": p.id}, "%s: hash set although network mapping is off" % p.id,
                                      {"kind": "presence", "def": p.id})
                    continue
                if hsh is None:
                    rep.violation({"kind": "hash-missing", "def": p.id}, "%s: no hash although network mapping is on" % p.id, {"kind": "presence", "def": p.id})
                    continue
                if isinstance(hsh, str):
                    import hashlib
                    txt = getattr(hsh, "text", None)
                    id_only_ok = (hsh == hashlib.md5(mid.encode()).hexdigest()) or (txt is not None and mid in txt)      # no key fields: any text that names the definition
                    if [f for f in dbkeys if f.id in fids] or not id_only_ok:
                        rep.violation({"kind": "hash-shape", "def": p.id}, "%s: hash %s is not md5 of the id alone / key fields ignored" % (p.id, hsh), {"kind": "collide", "def": p.id})
                    continue
                parts = hsh.rope.parts if isinstance(hsh, SymHash) else [hsh]
                # expected shape
                seen_fields = [f for f in dbkeys if f.id in fids]       # key fields that the (possibly prefix-only) run reached
                exp_raw = {k: v for k, v in keys_raw}
                flat = []
                for x in parts:
                    flat.append(x)
                want = [mid]
                for f in seen_fields:
                    want += ["_", exp_raw.get(f.id, "<missing>")]
                ok = _same_shape(flat, want)
                if not ok and _semantically_fine(flat, mid, seen_fields, exp_raw, fvars):
                    # another text format that is still an injective function of (id, key raw values) and of nothing else:
                    # the property constrains which messages share a hash, not how the hashed text looks
                    rep.count("definitions_with_another_hash_text_format_accepted")
                    continue
                if not ok:
                    rep.violation({"kind": "hash-shape", "def": p.id},
                                  "%s: hash input is %s, expected id + '_' + raw value of key fields %r" % (p.id, _shape(flat), [f.id for f in seen_fields]),
                                  {"kind": "collide", "def": p.id})
                    continue
                if mode == "prefix" and len(seen_fields) != len(dbkeys):
                    rep.count("definitions_with_key_fields_after_a_variable_field")
                # the fields flagged in the message must be exactly the database's key fields (C01 checks the flag, repeated here)
                if [k for k, _ in keys_raw] != [f.id for f in seen_fields]:
                    rep.violation({"kind": "key-fields", "def": p.id}, "%s: key fields %r, database %r" % (p.id, [k for k, _ in keys_raw], [f.id for f in seen_fields]),
                                  {"kind": "collide", "def": p.id})
                for f in seen_fields:
                    nk += 1
                    rv_ = exp_raw[f.id]
                    fv = fvars.get(f.order)
                    if fv is None:
                        continue
                    kind = (f.type, f.len, f.signed, str(f.res))
                    if kind in kinds:
                        continue
                    kinds[kind] = (p.id, f.id)
                    # raw value is an injective function of the field's bits (two-copy)
                    fv2 = z3.BitVec(fv.decl().name() + "_b", fv.size())
                    rv2 = numkernel.subst(rv_, [(fv, fv2)]) if is_symbolic(rv_) else rv_
                    if isinstance(rv_, (SymFloat,)) or (isinstance(rv_, SymOpt) and isinstance(rv_.inner, SymFloat)):
                        st, wit = _float_injective(H, f)
                    else:
                        st, mm = prove(z3.Implies(eq_term(rv_, rv2), fv == fv2), label="key-injective/%s/%d" % (f.type, f.len))
                        wit = (mm.eval(fv, True).as_long(), mm.eval(fv2, True).as_long()) if st == "sat" else None
                    if st == "sat":
                        rep.violation({"kind": "key-not-injective", "sig": "%s/%d/%s" % (f.type, f.len, f.res)},
                                      "%s.%s: two different key values %r give the same raw value (equal hashes for different keys)" % (p.id, f.id, wit),
                                      {"kind": "collide", "def": p.id, "field": f.id, "raws": list(wit) if wit else None})
                    elif st == "unknown":
                        rep.inconc("%s.%s injectivity undecided" % (p.id, f.id))
        if len(rep.samples) < 2 and dbkeys:
            rep.sample({"definition": p.id, "key_fields": [f.id for f in dbkeys]})
    return dict(violations=rep.violations, inconclusive=rep.inconclusive, errors=rep.harness_errors, samples=rep.samples, stats=explorer.STATS, nd=nd, nk=nk)


def _zvars(t, acc, consts=None):
    if z3.is_const(t) and t.decl().kind() == z3.Z3_OP_UNINTERPRETED:
        acc.add(t.decl().name())
        if consts is not None:
            consts[t.decl().name()] = t
        return
    for ch in t.children():
        _zvars(ch, acc, consts)


def _terms_of(x):
    if isinstance(x, SymRope):
        out = []
        for q in x.parts:
            out += _terms_of(q)
        return out
    if isinstance(x, SymOpt):
        return [x.none] + _terms_of(x.inner)
    if isinstance(x, (SymInt, SymFloat)):
        return [x.t]
    if hasattr(x, "key") and hasattr(x, "mapping"):
        # a looked-up value is rendered by its text: two keys with the same value (or both unnamed -> None) give the same text
        vals = []
        for v in list(x.mapping.values()) + [x.default]:
            if not any(v is w or (type(v) is type(w) and v == w) for w in vals):
                vals.append(v)

        def idx(v):
            return z3.IntVal([i for i, w in enumerate(vals) if v is w or (type(v) is type(w) and v == w)][0])
        t = idx(x.default)
        from .proxies import truth
        for k_, v in x.mapping.items():
            t = z3.If(truth(x.key == k_), idx(v), t)
        return [t]
    if isinstance(x, str) or x is None or isinstance(x, (int, float)):
        return []
    return None


def _semantically_fine(flat, mid, key_fields, exp_raw, fvars):
    """the hashed text is (1) made of literal text containing the definition id and of the key fields' raw values only,
    (2) with a literal separator between any two values, (3) an injective function of the key fields' bits"""
    merged = []
    for x in flat:
        if isinstance(x, str) and merged and isinstance(merged[-1], str):
            merged[-1] += x
        else:
            merged.append(x)
    lits = "".join(x for x in merged if isinstance(x, str))
    if mid not in lits:
        return False
    syms = [x for x in merged if not isinstance(x, str)]
    if any(not isinstance(a, str) and not isinstance(b, str) for a, b in zip(merged, merged[1:])):
        return False
    allowed = set()
    consts = {}
    for f in key_fields:
        fv = fvars.get(f.order)
        if fv is None:
            return False
        _zvars(fv, allowed, consts)
    used = set()
    terms = []
    for x in syms:
        ts = _terms_of(x)
        if ts is None:
            return False
        ts = [z3.simplify(t) for t in ts]
        terms += ts
        for t in ts:
            _zvars(t, used)
    if not used <= allowed:
        return False
    if len(syms) != len(key_fields):
        return False
    # two-copy injectivity of the tuple of pieces in the key fields' bits (the variables may hold other fields' bits too:
    # only the key fields' own bits have to be determined by the text)
    subs = [(c_, z3.BitVec(nm_ + "_c2", c_.size())) for nm_, c_ in consts.items()]
    if not subs:
        return False
    same = z3.And(*[t == z3.substitute(t, *subs) for t in terms]) if terms else z3.BoolVal(True)
    keys_equal = z3.And(*[fvars[f.order] == z3.substitute(fvars[f.order], *subs) for f in key_fields])
    st, _m = prove(z3.Implies(same, keys_equal), label="hash-text-injective")
    return st == "unsat"


def _shape(flat):
    return [x if isinstance(x, str) else type(x).__name__ for x in flat]


def _same_shape(flat, want):
    # literal pieces may be merged by the f-string helper: compare after merging adjacent strings on both sides
    def merge(xs):
        out = []
        for x in xs:
            if isinstance(x, str) and out and isinstance(out[-1], str):
                out[-1] += x
            else:
                out.append(x)
        return out
    a, b = merge(flat), merge(want)
    if len(a) != len(b):
        return False
    for x, y in zip(a, b):
        if isinstance(x, str) or isinstance(y, str):
            if x != y:
                return False
        elif x is not y:
            if isinstance(x, SymRope) and len(x.parts) == 1 and x.parts[0] is y:
                continue
            return False
    return True


def _float_injective(H, f):
    """value = decode_number(raw) is injective in raw (rounding-error model: every binary64 execution is a model)"""
    sig = Sig(f)
    with real_context() as c:
        x, y = z3.Int("x"), z3.Int("y")
        vx, rcx, _ = numkernel.run_kernel(H.real["decode_number"], SymIntZ(x, (0, f.len)), 0, f.len, sig.signed, sig.res_py, sig.min_py, sig.max_py)
        vy, rcy, _ = numkernel.run_kernel(H.real["decode_number"], SymIntZ(y, (0, f.len)), 0, f.len, sig.signed, sig.res_py, sig.min_py, sig.max_py)
        cons = list(c.cons)

    def parts(v):
        n = v.none if isinstance(v, SymOpt) else z3.BoolVal(v is None)
        inner = v.inner if isinstance(v, SymOpt) else v
        t = inner.t if isinstance(inner, (SymReal,)) else z3.ToReal(inner.t) if isinstance(inner, SymIntZ) else None
        return n, t
    nx, tx = parts(vx)
    ny, ty = parts(vy)
    same = z3.And(nx == ny, z3.Implies(z3.Not(nx), tx == ty)) if tx is not None and ty is not None else nx == ny
    dom = [x >= 0, x < (1 << f.len), y >= 0, y < (1 << f.len), z3.Not(rcx), z3.Not(rcy)] + cons
    st, mm = prove(z3.Implies(same, x == y), dom, label="key-injective/float/%d/%s" % (f.len, f.res))
    return st, ((mm.eval(x, True).as_long(), mm.eval(y, True).as_long()) if st == "sat" else None)


_PROC_SNIPPET = r"""
import sys, json
sys.path.insert(0, sys.argv[1])
from vf.plain import plain
from vf.db import db
N = plain(); D = db()
out = {}
for pid, payload in json.loads(sys.argv[2]):
    p = [q for q in D.pgns if q.id == pid][0]
    try:
        m = N.pgns.__dict__["decode_pgn_%s" % D.func_suffix(p)](int(payload, 16))
        m.add_data(1, 2, 3, None, None, True, b"")
        out[pid] = m.hash
    except Exception as e:
        out[pid] = "raised %r" % (e,)
print(json.dumps(out))
"""


def process_check(rep):
    """the hash is the same in every process: one message per key-field kind (numbers, lookups, MMSI, text) hashed by the plain
    code in two interpreter processes with different string-hash seeds"""
    import json
    import subprocess
    import sys
    D = db()
    from .wire import match_payload
    cases = []
    seen_types = {}
    for p in D.pgns:
        kts = tuple(sorted({f.type for f in p.fields if f.key}))
        if not kts or seen_types.get(kts, 0) >= 2:
            continue
        if any(f.type in ("STRING_LAU",) and f.key for f in p.fields):
            # text key (station id): a message with three LAU strings
            i0 = next(i for i, f in enumerate(p.fields) if not f.fixed)
            head_bits = max((f.off + f.len for f in p.fields[:i0] if f.fixed), default=0)
            body = b"".join(bytes([len(t) + 2, 1]) + t for t in (b"HARBOUR-7", b"name"))
            pl = (int.from_bytes(body, "little") << head_bits) | 1
        else:
            if not all(f.fixed for f in p.fields):
                continue
            pl = int.from_bytes(match_payload(p, 1), "little")
        seen_types[kts] = seen_types.get(kts, 0) + 1
        cases.append((p.id, hex(pl)))
    root = os.path.dirname(os.path.dirname(os.path.abspath(__file__)))
    outs = []
    for seed_ in ("1", "2"):
        env = dict(os.environ, PYTHONHASHSEED=seed_)
        try:
            pr = subprocess.run([sys.executable, "-c", _PROC_SNIPPET, root, json.dumps(cases)], capture_output=True, text=True, timeout=120, env=env)
            outs.append(json.loads(pr.stdout.strip().splitlines()[-1]))
        except Exception as e:
            if rep is None:
                return None, "subprocess failed: %r" % (e,)
            rep.inconc("process independence: subprocess failed: %r" % (e,))
            return
    diff = [k for k in outs[0] if outs[0][k] != outs[1].get(k) and not str(outs[0][k]).startswith("raised")]
    if rep is None:
        return bool(diff), "hash differs between two interpreter processes for %r" % (diff[:3],) if diff else "same hashes in both processes"
    rep.count("messages_hashed_in_two_processes", len([k for k in outs[0] if not str(outs[0][k]).startswith("raised")]))
    if diff:
        rep.violation({"kind": "hash-process-dependent"}, "the identity hash of %s differs between two interpreter processes (%s vs %s)" % (diff[0], outs[0][diff[0]], outs[1][diff[0]]),
                      {"kind": "process"})


def run(tier, seed):
    from . import explorer
    rep = Report(PID, tier, seed, "other")
    D = db()
    H = Harness()
    install(H.R)
    _G.update(D=D, H=H, tier=tier)
    rep.functions = ["message.NMEA2000Message.add_data", "message.apply_preferred_units (order only)", "pgns.decode_pgn_* (every supported definition)",
                     "decoder.NMEA2000Decoder.__init__ (build_network_map / preferred_units)"]
    rep.stubs = ["hashlib.md5(text).hexdigest() -> injective function of the structured text (trusted: no MD5 collisions on these strings)",
                 "str(symbolic value) -> opaque piece of the text; distinct numbers / None render differently (trusted)"]
    rep.bounds = {"payloads": "two arbitrary payloads per definition (two-copy injectivity per key-field kind)", "addressing": "symbolic source/destination/priority"}
    rep.outside = ["definitions containing a variable-length field (their key fields are not analysed)", "key fields of string type (none in this database reach the hash differently)"]
    nproc = max(1, min(16, os.cpu_count() or 1))
    order = sorted(range(len(D.pgns)), key=lambda i: -len(D.pgns[i].fields))
    parts = run_jobs(rep, _worker, [order[k::nproc] for k in range(nproc)], timeout_s=600)
    nd = sum(p_["nd"] for p_ in parts if p_ and "nd" in p_)
    nk = sum(p_["nk"] for p_ in parts if p_ and "nk" in p_)
    rep.count("definitions", nd)
    rep.count("key_field_instances", nk)
    rep.coverage.update(explanation="bounded symbolic verification: %d definitions run symbolically through add_data with an injective md5 model; hash text shape per definition, "
                                    "injectivity of every key-field kind by two-copy SMT queries" % nd)
    rep.assumptions = ["MD5 has no collisions on the short key strings", "str() of distinct ints/floats/None is distinct"]
    process_check(rep)
    return rep.finish(replay)


def replay(r):
    if r.get("kind") == "process":
        return process_check(None)
    """concrete search on the plain code: equal hashes for different key bits / different hashes for equal key bits"""
    import itertools
    from .plain import plain
    N = plain()
    D = db()
    p = [q for q in D.pgns if q.id == r["def"]][0]
    fn = N.pgns.__dict__["decode_pgn_%s" % D.func_suffix(p)]
    from .c02 import base_raw
    base = 0
    for g in p.fields:
        if g.fixed:
            base |= base_raw(g) << g.off
    if r["kind"] == "presence":
        iso = N.message.IsoName.__new__(N.message.IsoName)
        for k_, v_ in (("unique_number", 1), ("manufacturer_code", None), ("device_instance", 0), ("device_function", "x"), ("device_class", "x"),
                       ("system_instance", 0), ("industry_group", "x"), ("arbitrary_address_capable", False), ("name", 77)):
            setattr(iso, k_, v_)
        nb = p.length or (max(f.off + f.len for f in p.fields if f.fixed) + 7) // 8
        data = (base & ((1 << (8 * nb)) - 1)).to_bytes(nb, "big")
        bad = []
        for mapping in (True, False):
            for who in (None, iso):
                dec = N.decoder.NMEA2000Decoder(build_network_map=mapping)
                m = dec._call_decode_function(p.pgn, 3, 1, 2, None, data, who, b"")
                if m is not None and (m.hash is not None) != mapping:
                    bad.append("mapping=%s identity=%s -> hash %r" % (mapping, who is not None, m.hash))
        return bool(bad), "; ".join(bad)
    keys = [f for f in p.fields if f.key and f.fixed]

    def hash_of(vals, src=1, extra=0):
        pl = base
        for f, v in zip(keys, vals):
            pl = (pl & ~(((1 << f.len) - 1) << f.off)) | ((v & ((1 << f.len) - 1)) << f.off)
        nonkey = [f for f in p.fields if not f.key and f.fixed and f.type in ("RESERVED", "LOOKUP")]
        if extra and nonkey:
            f = nonkey[0]
            pl ^= 1 << f.off
        try:
            m = fn(pl)
        except Exception:
            return None
        m.add_data(src, 2, 3, None, None, True, b"")
        return m.hash
    cands = [0, 1, 2, 11, 12, 21, 3, 10, 100, 112]
    # wide key fields (MMSI, 32-bit identifiers): values that agree in their leading digits, and values near the top of the field
    wide = [244123456, 244123457, 1000000, 1000001, 999999]
    seen = {}
    if keys and max(f.len for f in keys) >= 20:
        for i_, f in enumerate(keys):
            if f.len < 20:
                continue
            for v in wide + [(1 << f.len) - 3, (1 << f.len) - 4]:
                vals = [1] * len(keys)
                vals[i_] = v & ((1 << f.len) - 1)
                hsh = hash_of(vals)
                if hsh is None:
                    continue
                if hsh in seen and seen[hsh] != vals:
                    return True, "keys %r and %r share hash %s" % (seen[hsh], vals, hsh)
                seen[hsh] = vals
    # another definition of the same PGN with the same key values must not share the hash (both decode orders)
    sibs = [q for q in D.groups[p.pgn] if q is not p and [g for g in q.fields if g.key and g.fixed]]
    for q in sibs[:6]:
        qfn = N.pgns.__dict__.get("decode_pgn_%s" % D.func_suffix(q))
        if qfn is None:
            continue
        qkeys = [g for g in q.fields if g.key and g.fixed]
        if len(qkeys) != len(keys):
            continue
        qbase = 0
        for g in q.fields:
            if g.fixed:
                qbase |= base_raw(g) << g.off
        for vals in ([1] * len(keys), [3] * len(keys)):
            # a value both definitions accept: their own match value where the key field is a match field
            vq = [int(g.match) if g.match is not None else v for g, v in zip(qkeys, vals)]
            vp = [int(g.match) if g.match is not None else v for g, v in zip(keys, vals)]
            if vq != vp:
                continue
            for order in (0, 1):
                hs = {}
                for which in ((("p", "q") if order == 0 else ("q", "p"))):
                    if which == "p":
                        hs["p"] = hash_of(vp)
                    else:
                        pl = qbase
                        for g, v in zip(qkeys, vq):
                            pl = (pl & ~(((1 << g.len) - 1) << g.off)) | ((v & ((1 << g.len) - 1)) << g.off)
                        try:
                            mq = qfn(pl)
                            mq.add_data(1, 2, 3, None, None, True, b"")
                            hs["q"] = mq.hash if mq.id != p.id else None
                        except Exception:
                            hs["q"] = None
                if hs.get("p") is not None and hs.get("p") == hs.get("q"):
                    return True, "%s and %s (same PGN, key values %r) share hash %s" % (p.id, q.id, vp, hs["p"])
    for vals in itertools.product(cands, repeat=min(len(keys), 3)):
        vals = list(vals) + [0] * (len(keys) - len(vals))
        vals = [v & ((1 << f.len) - 1) for v, f in zip(vals, keys)]
        hsh = hash_of(vals)
        if hsh is None:
            continue
        if hsh in seen and seen[hsh] != vals:
            return True, "keys %r and %r share hash %s" % (seen[hsh], vals, hsh)
        seen[hsh] = vals
        if hash_of(vals, src=9) != hsh or hash_of(vals, extra=1) not in (hsh, None):
            return True, "hash of keys %r changes with source / non-key bits" % (vals,)
    if r.get("raws"):
        f = [x for x in keys if x.id == r["field"]][0]
        i = keys.index(f)
        v1 = [0] * len(keys)
        v2 = [0] * len(keys)
        v1[i], v2[i] = r["raws"]
        h1, h2 = hash_of(v1), hash_of(v2)
        if h1 is not None and h1 == h2 and v1 != v2:
            return True, "keys %r and %r share hash %s" % (v1, v2, h1)
    return False, "no collision / dependence found among probe values"
