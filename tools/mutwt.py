#!/usr/bin/env python3
"""Create a scratch worktree of /repo HEAD with one mutant of tools/selfmut.json applied; prints its path.
Remove with: git -C /repo worktree remove --force <path>; rm -rf $(dirname <path>)"""
import json, os, re, subprocess, sys, tempfile
ROOT = os.path.dirname(os.path.dirname(os.path.abspath(__file__)))
m = [x for x in json.load(open(os.path.join(ROOT, "tools", "selfmut.json"))) + json.load(open(os.path.join(ROOT, "tools", "equivmut.json"))) if x["id"] == sys.argv[1]][0]
tmp = tempfile.mkdtemp(prefix="mutwt.")
wt = os.path.join(tmp, "r")
subprocess.run(["git", "-C", "/repo", "worktree", "add", "-q", "--detach", wt, "HEAD"], check=True)
path = os.path.join(wt, m["file"])
s = open(path).read()
s2, n = re.subn(m["old"], m["new"], s, count=1, flags=re.M)
for old, new in m.get("extra", []):
    s2, n2 = re.subn(old, new, s2, count=1, flags=re.M)
    n = min(n, n2)
assert n == 1, "pattern not found"
open(path, "w").write(s2)
print(wt)
