#!/usr/bin/env python3
"""fill the __TABLE__/__N__/... placeholders of DESIGN.md section 9.6 from seeded/RESULTS.json (or rewrite the table between the markers)"""
import json, os, re, sys
ROOT = os.path.dirname(os.path.dirname(os.path.abspath(__file__)))
r = json.load(open(os.path.join(ROOT, "seeded", "RESULTS.json")))
rows = []
caught = 0
for sd in sorted(r):
    meta = json.load(open(os.path.join(ROOT, "seeded", sd, "meta.json")))
    summ = meta["summary"].replace("\n", " ").replace("|", "/")
    if len(summ) > 150:
        summ = summ[:147] + "..."
    pid = sd.split("-")[0]
    v = r[sd].get(pid, {})
    first = (v.get("first") or "").replace("|", "/").replace("\n", " ")
    if len(first) > 110:
        first = first[:107] + "..."
    if v.get("exit") == 1:
        caught += 1
    rows.append("| %s | %s | %s | %s |" % (sd, summ, "exit %s" % v.get("exit"), first))
table = "<!-- seed table start -->\n| seeded change | what was changed (its author's summary) | quick check of its property | first reported line |\n|---|---|---|---|\n" + "\n".join(rows) + "\n<!-- seed table end -->"
p = os.path.join(ROOT, "DESIGN.md")
s = open(p).read()
if "__TABLE__" in s:
    s = s.replace("__TABLE__", table)
else:
    s = re.sub(r"<!-- seed table start -->.*?<!-- seed table end -->", lambda m: table, s, flags=re.S)
open(p, "w").write(s)
print(len(rows), "seeds,", caught, "caught")
