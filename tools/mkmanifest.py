#!/usr/bin/env python3
"""regenerate MANIFEST.json from tools/checks.json (single source of truth for what is claimed)"""
import json, os
root = os.path.dirname(os.path.dirname(os.path.abspath(__file__)))
spec = json.load(open(os.path.join(root, "tools", "checks.json")))
props = [json.loads(l)["id"] for l in open(os.path.join(root, "properties.jsonl"))]
checks = []
for pid in props:
    c = spec["checks"].get(pid)
    if not c:
        continue
    checks.append({
        "property_id": pid,
        "quick_cmd": "./check %s --tier quick" % pid,
        "thorough_cmd": "./check %s --tier thorough" % pid,
        "evidence_file": "evidence/%s.json" % pid,
        "replay_cmd_template": "./check %s --replay {path}" % pid,
        "engine": "symx",
        "level_claimed": {"category": c["category"], "text": c["text"], "design_ref": c.get("design_ref", "DESIGN.md section 4, " + pid)},
        "level_note": c["note"],
        "technique": c["technique"],
    })
na = [{"property_id": pid, "reason": spec["not_applicable"].get(pid, "check not built yet in this round; no claim is made")}
      for pid in props if pid not in spec["checks"]]
m = {
    "version": 1,
    "setup_cmd": "./setup.sh",
    "hooks": {"guard": "NMEA2000_VERIF", "enable": "not needed: all instrumentation is applied in memory at load time (vf/loader.py); /repo carries no hook code",
              "baseline_off_cmd": "cd /repo && /venv/bin/python -m pytest -ra -q -p no:cacheprovider --timeout=900 --continue-on-collection-errors",
              "source_commits": spec.get("source_commits", []), "add_only": True},
    "engines": [{"name": "symx", "path": "vf/", "serves_properties": [c["property_id"] for c in checks],
                 "kind_free_text": "load-time instrumenting symbolic executor for the repository's real Python source: replay-DFS path exploration, auto-widening bit-vector ints, z3 FP floats, rounding-error real model, finite-domain symbolic values; z3 decides every branch and every obligation; counterexamples are replayed on the plain code"}],
    "checks": checks,
    "notes": spec.get("notes", ""),
    "not_applicable": na,
}
json.dump(m, open(os.path.join(root, "MANIFEST.json"), "w"), indent=1)
print("MANIFEST.json: %d checks, %d not_applicable" % (len(checks), len(na)))
