#!/bin/sh
# tools/verify_seed.sh <ID> <variant> [patchfile]: confirm a seeded change in a scratch worktree of /repo HEAD and store it
ID="$1"; V="$2"; SRC=/tmp/seed5/$ID/seed/$V; [ -d "$SRC" ] || SRC=/tmp/seed/$ID/seed/$V; [ -d "$SRC" ] || SRC=/tmp/seed2/$ID/seed/$V; [ -d "$SRC" ] || SRC=/tmp/seed3/$ID/seed/$V; [ -d "$SRC" ] || SRC=/tmp/seed4/$ID/seed/$V; [ -d "$SRC" ] || SRC=/verif/seeded/$ID-$V; PATCH="${3:-$SRC/patch.diff}"
WT=$(mktemp -d /tmp/sv.XXXXXX)/r
git -C /repo worktree add -q "$WT" HEAD || exit 9
cd "$WT"
R0=$( /venv/bin/python "$SRC/demo.py" >/tmp/sv.$ID.$V.pristine 2>&1; echo $?)
git apply "$PATCH" 2>/dev/null || git apply --include='nmea2000/*' "$PATCH" || { echo "$ID-$V: PATCH DOES NOT APPLY"; cd /; git -C /repo worktree remove --force "$WT"; exit 1; }
T=$( /venv/bin/python -m pytest -q -p no:cacheprovider 2>&1 | tail -1)
R1=$( /venv/bin/python "$SRC/demo.py" >/tmp/sv.$ID.$V.patched 2>&1; echo $?)
git diff > /tmp/sv.$ID.$V.diff
cd /; git -C /repo worktree remove --force "$WT"; rmdir "$(dirname "$WT")" 2>/dev/null
echo "$ID-$V: pristine_demo_exit=$R0 tests='$T' patched_demo_exit=$R1"
case "$T" in *"71 passed"*) ;; *) exit 1;; esac
[ "$R0" = 0 ] && [ "$R1" != 0 ] || exit 1
D=/verif/seeded/$ID-$V; mkdir -p "$D"
cp /tmp/sv.$ID.$V.diff "$D/patch.diff"; [ "$SRC" = "$D" ] || cp "$SRC/demo.py" "$D/demo.py"
python3 - "$SRC/meta.json" "$D/meta.json" "$T" "$R0" "$R1" <<'PY'
import json,sys
m=json.load(open(sys.argv[1]))
m["confirmed"]={"base":"/repo HEAD (with the fix: commits) in a scratch worktree","pristine_demo_exit":int(sys.argv[4]),"patched_tests":sys.argv[3],"patched_demo_exit":int(sys.argv[5]),
 "ran":["python seed/demo.py (pristine)","git apply patch.diff","python -m pytest -q -p no:cacheprovider","python seed/demo.py (patched)"]}
json.dump(m,open(sys.argv[2],"w"),indent=1)
PY
