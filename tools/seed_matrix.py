#!/usr/bin/env python3
"""Run every check against every seeded change of its property (and optionally all checks against all seeds).
Each seed is applied to a scratch worktree of /repo's HEAD (never to /repo itself); the check runs with
NMEA2000_REPO pointing at it.  Writes seeded/RESULTS.json and prints a table."""
import json
import os
import subprocess
import sys
import tempfile
import concurrent.futures as cf

ROOT = os.path.dirname(os.path.dirname(os.path.abspath(__file__)))
REPO = "/repo"


def run_one(seed, checks, tier="quick"):
    sd = os.path.join(ROOT, "seeded", seed)
    tmp = tempfile.mkdtemp(prefix="sm.")
    wt = os.path.join(tmp, "r")
    out = {}
    try:
        subprocess.run(["git", "-C", REPO, "worktree", "add", "-q", "--detach", wt, "HEAD"], check=True, capture_output=True)
        ap = subprocess.run(["git", "-C", wt, "apply", os.path.join(sd, "patch.diff")], capture_output=True, text=True)
        if ap.returncode != 0:
            ap = subprocess.run(["git", "-C", wt, "apply", "--include=nmea2000/*", os.path.join(sd, "patch.diff")], capture_output=True, text=True)
        if ap.returncode != 0:
            return seed, {"error": "patch does not apply: " + ap.stderr[-200:]}
        env = dict(os.environ, NMEA2000_REPO=wt, VF_EVIDENCE_DIR=os.path.join(tmp, "ev"), VF_REPLAY_DIR=os.path.join(tmp, "rp"))
        for c in checks:
            try:
                p = subprocess.run([os.path.join(ROOT, "check"), c, "--tier", tier], capture_output=True, text=True, timeout=1500, env=env, cwd=ROOT)
                lines = [l for l in p.stdout.splitlines() if l.startswith("VIOLATION") or l.startswith("  #")]
                out[c] = {"exit": p.returncode, "first": (lines[1][4:200] if len(lines) > 1 else ""), "n_violation_lines": sum(1 for l in lines if l.startswith("VIOLATION"))}
            except subprocess.TimeoutExpired:
                out[c] = {"exit": "timeout"}
        return seed, out
    finally:
        subprocess.run(["git", "-C", REPO, "worktree", "remove", "--force", wt], capture_output=True)
        subprocess.run(["rm", "-rf", tmp])


def main():
    seeds = sorted(d for d in os.listdir(os.path.join(ROOT, "seeded")) if os.path.isdir(os.path.join(ROOT, "seeded", d)))
    allchecks = "--all" in sys.argv
    only = [a for a in sys.argv[1:] if not a.startswith("--")]
    if only:
        seeds = [s for s in seeds if s in only or s.split("-")[0] in only]
    ids = sorted({s.split("-")[0] for s in os.listdir(os.path.join(ROOT, "seeded")) if s.startswith("C")})
    results = {}
    with cf.ThreadPoolExecutor(max_workers=int(os.environ.get("SM_JOBS", "3"))) as ex:
        futs = [ex.submit(run_one, s, ids if allchecks else [s.split("-")[0]]) for s in seeds]
        for f in cf.as_completed(futs):
            s, r = f.result()
            results[s] = r
            print(s, json.dumps(r)[:300], flush=True)
    path = os.path.join(ROOT, "seeded", "RESULTS.json")
    old = {}
    if os.path.exists(path):
        old = json.load(open(path))
    old.update(results)
    json.dump(old, open(path, "w"), indent=1, sort_keys=True)
    caught = sum(1 for s, r in results.items() if any(isinstance(v, dict) and v.get("exit") == 1 for v in r.values()))
    print("caught %d of %d seeded changes" % (caught, len(results)))


if __name__ == "__main__":
    main()
