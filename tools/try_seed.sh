#!/bin/sh
# tools/try_seed.sh <patch.diff> <check-id> [tier]   : apply a seeded change to /repo, run the check, undo
P="$1"; ID="$2"; TIER="${3:-quick}"
git -C /repo diff --quiet || { echo "/repo is dirty"; exit 9; }
git -C /repo apply "$P" 2>/dev/null || git -C /repo apply --include="nmea2000/*" "$P" || { echo "patch does not apply"; exit 9; }
cd /verif && timeout ${TMO:-900} ./check "$ID" --tier "$TIER" 2>&1 | grep -v conda | tail -${TAIL:-8}
git -C /repo checkout -- . 
