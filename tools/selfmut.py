#!/usr/bin/env python3
"""Mutation self-test: apply each one-line mutant of tools/selfmut.json to a scratch worktree of /repo HEAD, run the
repository's tests (informational: does the suite notice?) and the property's quick check with NMEA2000_REPO pointing
at the worktree.  Writes seeded/SELFMUT.json.  Usage: tools/selfmut.py [ids...]"""
import json
import os
import re
import subprocess
import sys
import tempfile
import concurrent.futures as cf

import threading
ROOT = os.path.dirname(os.path.dirname(os.path.abspath(__file__)))
REPO = "/repo"
TEST_LOCK = threading.Lock()      # the repository's TCP tests use a fixed port


def run_one(m):
    tmp = tempfile.mkdtemp(prefix="mut.")
    wt = os.path.join(tmp, "r")
    try:
        subprocess.run(["git", "-C", REPO, "worktree", "add", "-q", "--detach", wt, "HEAD"], check=True, capture_output=True)
        path = os.path.join(wt, m["file"])
        s = open(path).read()
        s2, n = re.subn(m["old"], m["new"], s, count=1, flags=re.M)
        for old, new in m.get("extra", []):
            s2, n2 = re.subn(old, new, s2, count=1, flags=re.M)
            n = min(n, n2)
        if n != 1:
            return m["id"], {"error": "pattern not found"}
        open(path, "w").write(s2)
        with TEST_LOCK:
            t = subprocess.run(["/venv/bin/python", "-m", "pytest", "-q", "-p", "no:cacheprovider", "-x"], cwd=wt, capture_output=True, text=True, timeout=300)
        tests = t.stdout.strip().splitlines()[-1] if t.stdout.strip() else "?"
        env = dict(os.environ, NMEA2000_REPO=wt, VF_EVIDENCE_DIR=os.path.join(tmp, "ev"), VF_REPLAY_DIR=os.path.join(tmp, "rp"))
        checks = m["check"] if isinstance(m["check"], list) else [m["check"]]
        res = None
        for ck in checks:
            try:
                p = subprocess.run([os.path.join(ROOT, "check"), ck, "--tier", "quick"], capture_output=True, text=True, timeout=1500, env=env, cwd=ROOT)
                lines = [l for l in p.stdout.splitlines() if l.startswith("  #")]
                one = {"exit": p.returncode, "first": lines[0][4:220] if lines else "", "tests": tests, "what": m["what"], "check": ck}
                if p.returncode not in (0, 1) or os.environ.get("SM_TAIL"):
                    one["tail"] = (p.stdout + p.stderr)[-1500:]
            except subprocess.TimeoutExpired:
                one = {"exit": "timeout", "tests": tests, "what": m["what"], "check": ck}
            if res is None or (res["exit"] == 0 and one["exit"] != 0):
                res = one          # several checks: the first one that does not simply pass is reported
            if res["exit"] != 0:
                break
        res["expected"] = m.get("expect", "violation")
        return m["id"], res
    finally:
        subprocess.run(["git", "-C", REPO, "worktree", "remove", "--force", wt], capture_output=True)
        subprocess.run(["rm", "-rf", tmp])


def main():
    muts = json.load(open(os.path.join(ROOT, "tools", "selfmut.json"))) + json.load(open(os.path.join(ROOT, "tools", "equivmut.json")))
    only = sys.argv[1:]
    if only:
        muts = [m for m in muts if m["id"] in only or m["check"] in only or (only == ["E"] and m["id"].startswith("E"))]
    results = {}
    with cf.ThreadPoolExecutor(max_workers=int(os.environ.get("SM_JOBS", "2"))) as ex:
        for f in cf.as_completed([ex.submit(run_one, m) for m in muts]):
            k, r = f.result()
            results[k] = r
            print(k, json.dumps(r)[:330], flush=True)
            if "tail" in r:
                print(r["tail"], flush=True)
    path = os.path.join(ROOT, "seeded", "SELFMUT.json")
    old = json.load(open(path)) if os.path.exists(path) else {}
    old.update(results)
    json.dump(old, open(path, "w"), indent=1, sort_keys=True)
    ok = sum(1 for r in results.values() if (r.get("exit") == 1) == (r.get("expected") == "violation") and r.get("exit") in (0, 1))
    print("%d of %d mutants behaved as expected" % (ok, len(results)))


if __name__ == "__main__":
    main()
