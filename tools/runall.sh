#!/bin/bash
# run every registered check of one tier on the current /repo tree, sequentially; summary on stdout
# usage: tools/runall.sh [quick|thorough] [ids...]
cd "$(dirname "$0")/.."
tier=${1:-quick}; shift
ids=${@:-C01 C02 C03 C04 C05 C06 C07 C08 C09 C10 C11 C12 C13 C14 C15 C16 C17 C18 C19 C20}
mkdir -p /tmp/runall
for id in $ids; do
  s=$(date +%s)
  ( timeout ${RUNALL_TIMEOUT:-7200} ./check $id --tier $tier > /tmp/runall/$id.$tier.out 2>&1 ); rc=$?
  e=$(date +%s)
  echo "$id $tier exit=$rc $((e-s))s $(tail -1 /tmp/runall/$id.$tier.out | cut -c1-200)"
done
