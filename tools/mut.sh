#!/bin/sh
# tools/mut.sh <check-id> <file> <python-regex-old> <new>  : one-off mutation (first match), tests + check, revert
ID="$1"; F="$2"; OLD="$3"; NEW="$4"
git -C /repo diff --quiet || { echo "/repo dirty"; exit 9; }
python3 - "$F" "$OLD" "$NEW" <<'PY'
import sys,re
f,old,new=sys.argv[1:4]
s=open('/repo/'+f).read()
s2,n=re.subn(old,new,s,count=1,flags=re.M)
assert n==1,"pattern not found"
open('/repo/'+f,'w').write(s2)
PY
[ $? -eq 0 ] || exit 9
(cd /repo && /venv/bin/python -m pytest -q -p no:cacheprovider -x 2>&1 | tail -1)
cd /verif && timeout ${TMO:-900} ./check "$ID" 2>&1 | grep -v conda | grep -v KNOWN | tail -${TAIL:-3} | cut -c1-220
git -C /repo checkout -- .
