#!/bin/sh
# tools/seedwt.sh <seed-dir-name>: scratch worktree of /repo HEAD with seeded/<name>/patch.diff applied; prints its path
D=$(mktemp -d /tmp/seedwt.XXXXXX); WT=$D/r
git -C /repo worktree add -q --detach "$WT" HEAD || exit 9
git -C "$WT" apply "/verif/seeded/$1/patch.diff" 2>/dev/null || git -C "$WT" apply --include='nmea2000/*' "/verif/seeded/$1/patch.diff" || { echo "patch does not apply" >&2; exit 1; }
echo "$WT"
