#!/bin/sh
# Build the overlay venv used by every check: /venv's site-packages (the repository's own
# dependencies) + z3-solver / cvc5 / crosshair-tool from the offline wheelhouse.  Idempotent.
set -e
cd "$(dirname "$0")"
V=.venv
if [ -x "$V/bin/python" ] && "$V/bin/python" -c "import z3, cvc5, orjson, tenacity" 2>/dev/null; then
    exit 0
fi
rm -rf "$V"
/venv/bin/python -m venv "$V"
SP=$("$V/bin/python" -c "import sysconfig; print(sysconfig.get_paths()['purelib'])")
echo "import site; site.addsitedir('/venv/lib/python3.12/site-packages')" > "$SP/base.pth"
PIP_NO_INDEX=1 "$V/bin/pip" install -q --no-index --find-links /opt/veriftools/wheels z3-solver cvc5 crosshair-tool >/dev/null 2>&1 || \
PIP_NO_INDEX=1 "$V/bin/pip" install -q --no-index --find-links /opt/veriftools/wheels z3-solver cvc5
"$V/bin/python" -c "import z3, cvc5, orjson, tenacity; print('venv ok', z3.get_version_string())"
