import time, sys, json, z3, sx
from sx import *
import nmea2000.message, nmea2000.consts
utils = load_instrumented('nmea2000.utils', '/repo/nmea2000/utils.py', 'nmea2000')
pgns = load_instrumented('nmea2000.pgns', '/repo/nmea2000/pgns.py', 'nmea2000')
for k in list(pgns.master_dict): pgns.master_dict[k] = SymTable(pgns.master_dict[k])
for name in ('decode_number','decode_int','decode_time','decode_date'):
    setattr(pgns, name, summarize(getattr(utils, name)))
db = json.load(open('/repo/canboat.json'))
# --- field check with raise condition excluded
P = [p for p in db['PGNs'] if p['PGN']==127250][0]
data = z3.BitVec('data', 64)
paths, ex = with_explorer(lambda: pgns.decode_pgn_127250(SymInt(z3.ZeroExt(1, data))))
(pc, kind, (msg, deferred)), = paths
anyraise = z3.Or(*[c for c,_ in deferred])
f = msg.fields[2]; spec = P['Fields'][2]
off, bl, res = spec['BitOffset'], spec['BitLength'], spec['Resolution']
raw = z3.Extract(off+bl-1, off, data)
v=f.value
spec_val = z3.fpMul(RNE, z3.fpSignedToFP(RNE, raw, F64), z3.FPVal(res, F64))
s=z3.Solver(); s.add(z3.Not(anyraise)); s.add(z3.Or(v.none != (raw==32767), z3.And(raw!=32767, z3.Not(z3.fpEQ(v.inner.t, spec_val)))))
t=time.time(); print('deviation (excluding raising payloads):', s.check(), round(time.time()-t,2))
# --- dispatcher path counts
for pgn in (126720, 130816, 61184, 65280):
    fn = getattr(pgns, f'decode_pgn_{pgn}')
    W = 64 if pgn in (61184,65280) else 223*8
    d = z3.BitVec('d', W)
    t=time.time()
    paths, ex = with_explorer(lambda: fn(SymInt(z3.ZeroExt(1, d))))
    ids = [ (v[0].id if kind=='return' and v[0] is not None else (None if kind=='return' else 'RAISE:'+str(v)[:30])) for pc,kind,v in paths]
    print(pgn, 'paths', len(paths), 'queries', ex.nqueries, 'time', round(time.time()-t,2), ids[:4])
