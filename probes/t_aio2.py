"""probe: close() injected at every loop step (C14) and concurrent send() with suspending drain (C19)
on the real ioclient, virtual-time loop. Concrete loops stand in for the symbolic t / suspend bits."""
import asyncio, selectors, time, sys, logging
logging.disable(logging.CRITICAL)
import nmea2000.ioclient as io
from nmea2000.message import NMEA2000Message

class FakeSelector(selectors.BaseSelector):
    def __init__(self, ref): self.ref = ref; self._map = {}
    def register(self, f, e, d=None): k = selectors.SelectorKey(f, f if isinstance(f,int) else f.fileno(), e, d); self._map[k.fd]=k; return k
    def unregister(self, f): return self._map.pop(f if isinstance(f,int) else f.fileno())
    def select(self, timeout=None):
        loop = self.ref[0]
        if timeout is None: raise RuntimeError('deadlock')
        if timeout > 0: loop.vtime += timeout
        return []
    def get_map(self): return self._map
    def close(self): pass
class VLoop(asyncio.SelectorEventLoop):
    def __init__(self):
        self.vtime = 0.0; self.steps = 0; self.hook = None
        ref = [None]; super().__init__(FakeSelector(ref)); ref[0] = self
    def time(self): return self.vtime
    def _run_once(self):
        self.steps += 1
        if self.hook: self.hook(self.steps)
        super()._run_once()

class FakeWriter:
    def __init__(self, log, suspend): self.log = log; self.suspend = suspend; self.closed = False; self.n = 0
    def write(self, b): self.log.append(bytes(b))
    async def drain(self):
        i = self.n; self.n += 1
        if self.suspend(i): await asyncio.sleep(0)
    def close(self): self.closed = True
    def get_extra_info(self, k): return None

def run_close(t_inject, connect_delay):
    loop = VLoop(); asyncio.set_event_loop(loop)
    opens = []; states = []; writers = []
    async def open_connection(host, port):
        opens.append(loop.steps)
        await asyncio.sleep(connect_delay)       # transport handshake takes (virtual) time
        w = FakeWriter([], lambda i: False); writers.append(w)
        return asyncio.StreamReader(), w
    io.asyncio.open_connection = open_connection
    res = {}
    async def main():
        c = io.EByteNmea2000Gateway('h', 1)
        async def st(s): states.append(s.name)
        c.set_status_callback(st)
        closed_at = []
        def hook(step):
            if step == t_inject and not closed_at:
                closed_at.append(step)
                async def do_close():
                    await c.close(); res['close_returned'] = loop.steps
                loop.create_task(do_close())
        loop.hook = hook
        ct = asyncio.create_task(c.connect())
        await asyncio.sleep(5)
        res['final_state'] = c.state.name
        res['pending'] = [t.get_coro().__qualname__ for t in asyncio.all_tasks() if not t.done() and t is not asyncio.current_task()]
        for t in asyncio.all_tasks():
            if t is not asyncio.current_task(): t.cancel()
    loop.run_until_complete(main())
    loop.close()
    return states, res, len(opens)

t0=time.time(); bad=[]
for t in range(1, 12):
    states, res, nopen = run_close(t, connect_delay=0.2)
    ok = res['final_state']=='CLOSED' and (states[-1:] == ['CLOSED'])
    if not ok: bad.append((t, states, res['final_state'], res['pending']))
print('C14 close-injection: steps tried 11, violations', len(bad), 'time', round(time.time()-t0,2))
for b in bad[:3]: print('  ', b)

# ---- C19
def run_send(pattern):
    loop = VLoop(); asyncio.set_event_loop(loop)
    log = []
    async def open_connection(host, port):
        return asyncio.StreamReader(), FakeWriter(log, lambda i: pattern[i % len(pattern)])
    io.asyncio.open_connection = open_connection
    js = open('/repo/tests/test_recombine.py').read().split("json = '")[1].split("'\n")[0]
    async def main():
        c = io.EByteNmea2000Gateway('h', 1)
        await c.connect()
        m1 = NMEA2000Message.from_json(js); m2 = NMEA2000Message.from_json(js); m2.source = 7
        await asyncio.gather(c.send(m1), c.send(m2))
        await c.close()
    loop.run_until_complete(main()); loop.close()
    srcs = [p[4] for p in log]   # source byte of the CAN id in each 13-byte packet
    return srcs
t0=time.time(); inter=0; total=0
import itertools
for pat in itertools.product([False, True], repeat=4):
    srcs = run_send(pat); total+=1
    # contiguous iff source sequence has exactly one change
    changes = sum(1 for a,b in zip(srcs, srcs[1:]) if a!=b)
    if changes > 1: inter += 1; ex = (pat, srcs)
print('C19 send interleaving: suspend patterns', total, 'interleaved', inter, 'time', round(time.time()-t0,2))
if inter: print('  e.g.', ex)
