"""probe (C03): real _encode_fast_message -> real _decode_fast_message, symbolic payload bytes and sequence counter"""
import time, z3, builtins, sx
from sx import *
import nmea2000.message, nmea2000.consts, nmea2000.utils, nmea2000.pgns
dec = load_instrumented('nmea2000.decoder', '/repo/nmea2000/decoder.py', 'nmea2000')
enc = load_instrumented('nmea2000.encoder_sx', '/repo/nmea2000/encoder.py', 'nmea2000')
def _mod(self, m):
    assert isinstance(m, int) and m > 0
    w = max(self.w, m.bit_length() + 1)
    return SymInt(z3.SRem(self.ext(w), z3.BitVecVal(m, w))) if False else SymInt(z3.BitVecRef(z3.Z3_mk_bvsmod(self.t.ctx_ref(), self.ext(w).as_ast(), z3.BitVecVal(m, w).as_ast()), self.t.ctx))
SymInt.__mod__ = _mod
class SB(SymBytes):
    def __add__(self, o): return SB(self.items + list(o))
    def __radd__(self, o): return SB(list(o) + self.items)
    def __getitem__(self, i):
        r = self.items[i]
        return SB(r) if isinstance(i, slice) else r
def sxb(x=b""):
    if isinstance(x, SymBytes): return x
    x = list(x)
    return SB(x) if any(isinstance(e, SymInt) for e in x) else builtins.bytes(x)
for m in (dec, enc): m.bytes = sxb
dec.int = sx_int
def run_n(n):
    seq_bv = z3.BitVec('seq', 3)
    payload = [z3.BitVec(f'p{i}', 8) for i in range(n)]
    def run():
        e = enc.NMEA2000Encoder(); e.sequence_counter = SymInt(z3.ZeroExt(1, seq_bv))
        frames = e._encode_fast_message(126720, 7, 1, 255, SB([SymInt(z3.ZeroExt(1, b)) for b in payload]))
        d = dec.NMEA2000Decoder(); got = []
        d._call_decode_function = lambda pgn, prio, src, dest, ts, data, iso, raw: ('MSG', data)
        outs = [d._decode_fast_message(126720, 7, 1, 255, None, sxb(f)[::-1], None, b'') for f in frames]
        return frames, outs, e.sequence_counter
    t = time.time()
    paths, ex = with_explorer(run)
    ok = True
    s = z3.Solver()
    for pc, kind, v in paths:
        if kind == 'raise': print('  raise', repr(v)); ok = False; continue
        (frames, outs, seq2), _ = v
        assert all(len(f) <= 8 for f in frames) and all(o is None for o in outs[:-1]) and outs[-1] is not None, (n, [len(f) for f in frames], outs)
        data = outs[-1][1]          # reversed payload as handed to the per-PGN function
        rec = list(data)[::-1]
        s.push(); s.add(*pc)
        diff = [z3.Extract(7, 0, SymInt.lift(r).ext(9)) != p for r, p in zip(rec, payload)]
        s.add(z3.Or(len(rec) != n, *diff) if diff else z3.BoolVal(len(rec) != n))
        r1 = s.check(); s.pop()
        s.push(); s.add(*pc); s.add(SymInt.lift(seq2).ext(6) != z3.ZeroExt(3, seq_bv + 1)); r2 = s.check(); s.pop()
        ok = ok and r1 == z3.unsat and r2 == z3.unsat
    print(f'n={n:3d} frames={len(frames):2d} paths={len(paths)} payload-back+counter obligations {"unsat" if ok else "NOT unsat"} recovered-len={len(rec)} time={time.time()-t:.2f}s', flush=True)
for n in (0, 1, 6, 7, 13, 14, 100, 223):
    run_n(n)
