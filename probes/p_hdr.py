from nmea2000.decoder import NMEA2000Decoder
from nmea2000.encoder import NMEA2000Encoder

def ident_roundtrip(fid: int) -> bool:
    """
    pre: 0 <= fid < 2**29
    post: _
    """
    pgn, src, dest, prio = NMEA2000Decoder._extract_header(fid)
    return NMEA2000Encoder._build_header(pgn, src, dest, prio) == fid

def ident_witness(fid: int) -> bool:
    """
    pre: 0 <= fid < 2**29
    post: not _
    """
    pgn, src, dest, prio = NMEA2000Decoder._extract_header(fid)
    return NMEA2000Encoder._build_header(pgn, src, dest, prio) == fid
