import time, z3, sx
from sx import SymInt, with_explorer
from nmea2000.decoder import NMEA2000Decoder
from nmea2000.encoder import NMEA2000Encoder

fid_bv = z3.BitVec('fid', 29)
def run():
    fid = SymInt(z3.ZeroExt(1, fid_bv))
    pgn, src, dest, prio = NMEA2000Decoder._extract_header(fid)
    back = NMEA2000Encoder._build_header(pgn, src, dest, prio)
    return pgn, src, dest, prio, back
t=time.time()
paths, ex = with_explorer(run)
print('paths', len(paths), 'branch queries', ex.nqueries)
s = z3.Solver()
for pc, kind, val in paths:
    assert kind == 'return', val
    pgn, src, dest, prio, back = val
    s.push(); s.add(*pc); s.add(back.ext(40) != z3.ZeroExt(11, fid_bv))
    print(' path pc=', [str(p)[:60] for p in pc], '->', s.check())
    s.pop()
print('time', round(time.time()-t,2))
