import z3, time, sys
def q(bl, signed, res, mx_raw, mx):
    raw = z3.BitVec('raw', bl)
    F = z3.Float64()
    rm = z3.RNE()
    f = z3.fpSignedToFP(rm, z3.SignExt(1, raw) if signed else z3.ZeroExt(1, raw), F)
    v = z3.fpMul(rm, f, z3.FPVal(res, F))
    s = z3.Solver()
    if signed:
        s.add(raw <= mx_raw)   # signed compare
        s.add(raw >= 0)
    else:
        s.add(z3.ULE(raw, mx_raw))
    s.add(z3.fpGT(v, z3.FPVal(mx, F)))
    t=time.time(); r=s.check(); dt=time.time()-t
    print(bl, signed, res, r, s.model() if r==z3.sat else '', round(dt,2)); sys.stdout.flush()
q(16, False, 0.1, 65532, 6553.2)
q(16, False, 0.01, 65532, 655.32)
q(32, False, 0.1, 4294967292, 429496729.2)
q(32, False, 0.01, 4294967292, 42949672.92)
q(32, True, 1e-7, 1800000000, 180.0)
q(64, True, 1e-16, 1800000000000000000, 180.0)
