"""probe (C20): ONE iteration of the real serial loop from an arbitrary symbolic buffer (loop fuel = 1),
`find` modelled by forking per position."""
import time, z3, sx, ast
from sx import *
import nmea2000.message, nmea2000.consts, nmea2000.utils, nmea2000.pgns, nmea2000.decoder, nmea2000.encoder


class LoopCut(BaseException):
    pass


TICKS = [0]


def _sx_tick():
    TICKS[0] += 1
    if TICKS[0] > 1:
        raise LoopCut()


class R2(Rewriter):
    def visit_While(self, node):
        self.generic_visit(node)
        node.body.insert(0, ast.Expr(ast.Call(ast.Name('_sx_tick', ast.Load()), [], [])))
        return node


sx.Rewriter = R2
io = load_instrumented('nmea2000.ioclient_sx', '/repo/nmea2000/ioclient.py', 'nmea2000')
io._sx_tick = _sx_tick


class SymBuf:
    def __init__(self, items):
        self.items = list(items)

    def __len__(self):
        return len(self.items)

    def extend(self, other):
        self.items.extend(other.items)

    def hex(self):
        return '<sym>'

    def find(self, pat):
        for i in range(len(self.items) - 1):
            if bool(SymBool(z3.And(self.items[i].t == 0xAA, self.items[i + 1].t == 0x55))):
                return i
        return -1

    def __getitem__(self, s):
        return SymBuf(self.items[s]) if isinstance(s, slice) else self.items[s]


def byte(name):
    return SymInt(z3.ZeroExt(1, z3.BitVec(name, 8)))


class Cli(io.WaveShareNmea2000Gateway):
    def __init__(self):
        pass


def one_iteration(N):
    def run():
        TICKS[0] = 0
        c = Cli()
        c._buffer = SymBuf([])
        chunk = SymBuf([byte(f'b{i}') for i in range(N)])
        got = []

        class R:
            async def read(self, k):
                return chunk

        class Q:
            async def put(self, m):
                got.append(m)

        class Dec:
            def decode_usb(self, packet):
                return ('PKT', packet)

        c.reader = R()
        c.queue = Q()
        c.decoder = Dec()
        c.logger = None
        co = c._receive_impl()
        try:
            co.send(None)
        except StopIteration:
            return ('break', len(c._buffer), len(got))
        except LoopCut:
            return ('cut', len(c._buffer), len(got))
    return with_explorer(run)


for N in (40, 119, 219):
    t = time.time()
    paths, ex = one_iteration(N)
    outs = {}
    for pc, kind, v in paths:
        key = (v[0][0],) if kind == 'return' else ('ERR', repr(v)[:60])
        outs[key] = outs.get(key, 0) + 1
    lens_break = sorted({v[0][1] for pc, kind, v in paths if kind == 'return' and v[0][0] == 'break'})
    lens_cut = sorted({v[0][1] for pc, kind, v in paths if kind == 'return' and v[0][0] == 'cut'})
    print(f'N={N}: paths {len(paths)} {outs} break-lengths {lens_break[:3]}..{lens_break[-1:]} '
          f'cut-lengths {lens_cut[:2]}..{lens_cut[-1:]} queries {ex.nqueries} time {time.time()-t:.1f}s', flush=True)
