"""probe (C04 stream isolation lemma): one real _decode_fast_message step on stream X never reads or writes
the reassembly record of any other stream Y (trap sentinels), for fully symbolic frames."""
import time, z3, sx
from sx import *
import nmea2000.message, nmea2000.consts, nmea2000.utils, nmea2000.pgns
dec = load_instrumented('nmea2000.decoder_sx', '/repo/nmea2000/decoder.py', 'nmea2000'); dec.bytes = sx_bytes; dec.int = sx_int
class Trap:
    touched = []
    def __getattribute__(self, n):
        if n.startswith('__') : return object.__getattribute__(self, n)
        Trap.touched.append(n); raise AssertionError('foreign record read: ' + n)
    def __setattr__(self, n, v): Trap.touched.append(n); raise AssertionError('foreign record written')
TRIPLES = [(126720, 1, 255), (126720, 2, 255), (126720, 1, 7), (130816, 1, 255)]
def symframe(name): return SymBytes([SymInt(z3.ZeroExt(1, z3.BitVec(f'{name}_{i}', 8))) for i in range(8)])
res = []
for X in TRIPLES:
    def run():
        d = dec.NMEA2000Decoder()
        d._call_decode_function = lambda *a: ('DELIVER',)
        traps = {}
        for Y in TRIPLES:
            if Y != X:
                traps[Y] = Trap(); d.data[f"{Y[0]}_{Y[1]}_{Y[2]}"] = traps[Y]
        for k in range(2):
            d._decode_fast_message(X[0], 7, X[1], X[2], None, symframe(f'f{k}')[::-1], None, b'')
        ok = all(d.data.get(f"{Y[0]}_{Y[1]}_{Y[2]}") is traps[Y] for Y in traps)
        return ok, set(d.data) - {f"{Y[0]}_{Y[1]}_{Y[2]}" for Y in traps}
    t = time.time()
    paths, ex = with_explorer(run)
    bad = [ (k, v) for pc, k, v in paths if k == 'raise' or not v[0][0] ]
    own = set().union(*[v[0][1] for pc, k, v in paths if k == 'return'])
    print(X, 'paths', len(paths), 'violations', len(bad), 'keys written', own, 'trap hits', len(Trap.touched), f'{time.time()-t:.1f}s')
