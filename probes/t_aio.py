import asyncio, selectors, time, ast, sys, types
import sx
from sx import load_instrumented, Rewriter

class Livelock(BaseException): pass
FUEL = [0]
def _sx_tick():
    FUEL[0] += 1
    if FUEL[0] > 20000: raise Livelock()

class R2(Rewriter):
    def visit_While(self, node):
        self.generic_visit(node)
        node.body.insert(0, ast.Expr(ast.Call(ast.Name('_sx_tick', ast.Load()), [], [])))
        return node
sx.Rewriter = R2

class FakeSelector(selectors.BaseSelector):
    def __init__(self, loop_ref): self.loop_ref = loop_ref; self._map = {}
    def register(self, f, e, d=None): k = selectors.SelectorKey(f, f if isinstance(f,int) else f.fileno(), e, d); self._map[k.fd]=k; return k
    def unregister(self, f): return self._map.pop(f if isinstance(f,int) else f.fileno())
    def select(self, timeout=None):
        FUEL[0] = 0
        loop = self.loop_ref[0]
        if timeout is None:
            raise RuntimeError('deadlock: loop would block forever')
        if timeout > 0: loop.vtime += timeout
        return []
    def get_map(self): return self._map
    def close(self): pass

class VLoop(asyncio.SelectorEventLoop):
    def __init__(self):
        self.vtime = 0.0
        ref = [None]
        super().__init__(FakeSelector(ref)); ref[0] = self
    def time(self): return self.vtime
    def _write_to_self(self): pass

io = load_instrumented('nmea2000.ioclient_sx', '/repo/nmea2000/ioclient.py', 'nmea2000')
io._sx_tick = _sx_tick

class FakeWriter:
    def __init__(self, log): self.log = log; self.closed = False
    def write(self, b): self.log.append(('write', bytes(b)))
    async def drain(self): pass
    def close(self): self.closed = True
    def get_extra_info(self, k): return None

def scenario(faults):
    """faults: list of per-connection behaviours"""
    log = []; conns = []
    async def open_connection(host, port):
        i = len(conns); beh = faults[min(i, len(faults)-1)]
        conns.append((loop.time(), beh))
        if beh == 'refuse': raise ConnectionRefusedError()
        r = asyncio.StreamReader()
        if beh == 'eof': r.feed_eof()
        elif beh == 'line_then_eof': r.feed_data(b'A000057.055 09FF7 0FF00 3F9FDCFFFFFFFFFF\r\n'); r.feed_eof()
        return r, FakeWriter(log)
    io.asyncio.open_connection = open_connection
    loop = VLoop(); asyncio.set_event_loop(loop)
    got = []; states = []
    async def main():
        c = io.ActisenseNmea2000Gateway('h', 1)
        async def rx(m): got.append(m.PGN)
        async def st(s): states.append((loop.time(), s.name))
        c.set_receive_callback(rx); c.set_status_callback(st)
        hb = []
        async def heart():
            while True:
                hb.append(loop.time()); await asyncio.sleep(1)
        h = asyncio.create_task(heart())
        await c.connect()
        await asyncio.sleep(30)
        await c.close()
        h.cancel()
        return len(hb)
    try:
        n = loop.run_until_complete(main())
        print(faults, 'OK heartbeats', n, 'conns', [(round(t,2),b) for t,b in conns], 'states', states, 'got', got)
    except Livelock:
        print(faults, 'LIVELOCK (callback never yielded)', 'conns', [(round(t,2),b) for t,b in conns], 'states', states, 'got', got)
    finally:
        loop.close()
t=time.time()
scenario(['refuse','refuse','refuse','line_then_eof'])
scenario(['eof'])
print('time', round(time.time()-t,2))
