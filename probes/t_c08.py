"""probe (C08): all 24 generated dispatchers with recorder stubs for the per-definition decoders; spec from canboat.json"""
import time, json, z3, collections, sx
from sx import *
import nmea2000.message, nmea2000.consts
utils = load_instrumented('nmea2000.utils', '/repo/nmea2000/utils.py', 'nmea2000')
pgns = load_instrumented('nmea2000.pgns', '/repo/nmea2000/pgns.py', 'nmea2000')
db = json.load(open('/repo/canboat.json'))
groups = collections.defaultdict(list)
for p in db['PGNs']: groups[p['PGN']].append(p)
tot_paths = tot_ob = tot_bad = 0; t0 = time.time()
for pgn, defs in groups.items():
    if not (len(defs) > 1 and any('Match' in f for d in defs for f in d['Fields'])): continue
    for d in defs:
        setattr(pgns, f"decode_pgn_{pgn}_{d['Id']}", (lambda i: (lambda data: ('SEL', i)))(d['Id']))
    W = max((d.get('Length') or (223 if d['Type'] == 'Fast' else 8)) for d in defs) * 8 + 16
    p = z3.BitVec('p', W)
    paths, ex = with_explorer(lambda: getattr(pgns, f'decode_pgn_{pgn}')(SymInt(z3.ZeroExt(1, p))))
    # spec: first non-fallback definition in DB order whose match fields all equal, else fallback, else None
    def matches(d):
        cs = [z3.Extract(f['BitOffset'] + f['BitLength'] - 1, f['BitOffset'], p) == f['Match'] for f in d['Fields'] if 'Match' in f]
        return z3.And(*cs) if cs else z3.BoolVal(True)
    fallback = [d['Id'] for d in defs if d.get('Fallback')]
    cands = [d for d in defs if not d.get('Fallback')]
    bad = []
    for pc, kind, v in paths:
        sel = v[0][1] if (kind == 'return' and v[0] is not None) else (None if kind == 'return' else 'RAISE')
        # spec says `sel` iff: sel's condition holds and no earlier candidate matches
        s = z3.Solver(); s.add(*pc)
        if sel in [d['Id'] for d in cands]:
            i = [d['Id'] for d in cands].index(sel)
            s.add(z3.Not(z3.And(matches(cands[i]), *[z3.Not(matches(c)) for c in cands[:i]])))
        else:   # fallback or None expected only when no candidate matches
            s.add(z3.Or(*[matches(c) for c in cands]) if cands else z3.BoolVal(False))
            if sel != (fallback[0] if fallback else None): s.add(z3.BoolVal(True)); bad.append((sel, 'wrong default')); continue
        tot_ob += 1
        if s.check() != z3.unsat:
            m = s.model(); bad.append((sel, hex(m.eval(p, model_completion=True).as_long())))
    tot_paths += len(paths); tot_bad += len(bad)
    print(pgn, 'defs', len(defs), 'paths', len(paths), 'bad', bad[:2])
print('dispatchers done: paths', tot_paths, 'obligations', tot_ob, 'violated', tot_bad, 'time', round(time.time() - t0, 1), 's')
