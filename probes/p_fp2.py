import z3, time, sys
def q(bl, signed, res, trunc=False, lo=None, hi=None):
    raw = z3.BitVec('raw', bl)
    F = z3.Float64(); rm = z3.RNE()
    W = 72
    ext = z3.SignExt(W-bl, raw) if signed else z3.ZeroExt(W-bl, raw)
    f = z3.fpSignedToFP(rm, ext, F)
    v = z3.fpMul(rm, f, z3.FPVal(res, F))
    d = z3.fpDiv(rm, v, z3.FPVal(res, F))
    if trunc:
        back = z3.fpToSBV(z3.RTZ(), d, z3.BitVecSort(W))
    else:
        back = z3.fpToSBV(rm, d, z3.BitVecSort(W))  # round-half-even == python round()
    s = z3.Solver()
    if signed:
        s.add(raw != (1<<(bl-1))-1)
    else:
        s.add(raw != (1<<bl)-1)
    s.add(back != ext)
    t=time.time(); r=s.check(); dt=time.time()-t
    m = s.model()[raw].as_long() if r==z3.sat else ''
    print(bl, signed, res, 'trunc' if trunc else 'round', r, m, round(dt,2)); sys.stdout.flush()
q(16, False, 0.01)
q(16, False, 0.01, trunc=True)
q(16, False, 0.001, trunc=True)
q(32, False, 0.001, trunc=True)
q(32, True, 1e-9, trunc=True)
q(32, False, 0.0001, trunc=True)
q(32, True, 1e-7)
q(32, False, 0.01)
q(64, True, 1e-16)
