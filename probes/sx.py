"""Design-time feasibility spike (NOT the framework): replay-based symbolic execution of the
repo's real Python source over auto-widening bit-vector proxies, z3 deciding every branch."""
import ast, sys, types, importlib.util, time, builtins
import z3


class Unsupported(BaseException):
    pass


# --------------------------------------------------------------------------- explorer
class Explorer:
    def __init__(self):
        self.solver = z3.Solver()
        self.decisions = []  # [choice, has_alt]
        self.pos = 0
        self.pc = []
        self.nqueries = 0
        self.deferred = []
        self.tsolve = 0.0

    def feasible(self, c):
        self.nqueries += 1
        t = time.time()
        self.solver.push()
        for p in self.pc:
            if not has_fp(p):
                self.solver.add(p)
        self.solver.add(c)
        r = self.solver.check()
        self.solver.pop()
        self.tsolve += time.time() - t
        if r == z3.unknown:
            raise Unsupported("solver unknown")
        return r == z3.sat

    def branch(self, cond):
        c = z3.simplify(cond)
        if z3.is_true(c):
            return True
        if z3.is_false(c):
            return False
        if self.pos < len(self.decisions):
            d = self.decisions[self.pos][0]
        else:
            if has_fp(c):
                ct = cf = True      # policy: FP conditions are not feasibility-checked
            else:
                ct = self.feasible(c)
                cf = self.feasible(z3.Not(c))
            if ct and cf:
                self.decisions.append([True, True])
            elif ct:
                self.decisions.append([True, False])
            elif cf:
                self.decisions.append([False, False])
            else:
                raise Unsupported("infeasible path reached")
            d = self.decisions[self.pos][0]
        self.pos += 1
        self.pc.append(c if d else z3.Not(c))
        return d

    def paths(self, fn):
        """run fn() once per feasible path; yield (pc, kind, value)"""
        while True:
            self.pos = 0
            self.pc = []
            self.deferred = []
            try:
                v = fn()
                out = ("return", v)
            except Unsupported:
                raise
            except Exception as e:  # the code under test raised
                out = ("raise", e)
            yield list(self.pc), out[0], (out[1], list(self.deferred)) if out[0]=='return' else out[1]
            while self.decisions and not self.decisions[-1][1]:
                self.decisions.pop()
            if not self.decisions:
                return
            self.decisions[-1] = [False, False]


def has_fp(t, _seen=None):
    seen = set() if _seen is None else _seen
    stack = [t]
    while stack:
        x = stack.pop()
        if x.get_id() in seen:
            continue
        seen.add(x.get_id())
        k = x.sort().kind()
        if k in (z3.Z3_FLOATING_POINT_SORT, z3.Z3_ROUNDING_MODE_SORT):
            return True
        stack.extend(x.children())
    return False


EX = None  # current explorer
DEFER_RAISE = True


def with_explorer(fn):
    global EX
    old = EX
    EX = Explorer()
    try:
        res = list(EX.paths(fn))
        return res, EX
    finally:
        EX = old


# --------------------------------------------------------------------------- proxies
class SymBool:
    def __init__(self, t):
        self.t = t

    def __bool__(self):
        return EX.branch(self.t)


def _bv_of_const(c):
    w = c.bit_length() + 1
    return z3.BitVecVal(c, w), w


class SymInt:
    """Python int with exact unbounded semantics: signed bit-vector whose width grows so no op wraps."""

    def __init__(self, t, w=None):
        self.t = t
        self.w = t.size()

    @staticmethod
    def lift(x):
        if isinstance(x, SymInt):
            return x
        if isinstance(x, bool):
            x = int(x)
        if isinstance(x, int):
            t, w = _bv_of_const(x)
            return SymInt(t)
        return None

    def ext(self, w):
        return self.t if w == self.w else z3.SignExt(w - self.w, self.t)

    def _bin(self, o, f, grow):
        o = SymInt.lift(o)
        if o is None:
            return NotImplemented
        w = grow(self.w, o.w)
        return SymInt(f(self.ext(w), o.ext(w)))

    def __add__(self, o):
        if isinstance(o, float) or isinstance(o, SymFloat):
            return NotImplemented
        return self._bin(o, lambda a, b: a + b, lambda a, b: max(a, b) + 1)

    __radd__ = __add__

    def __sub__(self, o):
        return self._bin(o, lambda a, b: a - b, lambda a, b: max(a, b) + 1)

    def __rsub__(self, o):
        return SymInt.lift(o).__sub__(self)

    def __mul__(self, o):
        if isinstance(o, float):
            return SymFloat.from_int(self) * o
        return self._bin(o, lambda a, b: a * b, lambda a, b: a + b)

    __rmul__ = __mul__

    def __truediv__(self, o):
        return SymFloat.from_int(self) / o

    def __and__(self, o):
        r = self._bin(o, lambda a, b: a & b, max)
        if isinstance(o, int) and o >= 0:
            w = o.bit_length() + 1
            if w < r.w:
                r = SymInt(z3.Extract(w - 1, 0, r.t))
        return r

    __rand__ = __and__

    def __or__(self, o):
        return self._bin(o, lambda a, b: a | b, max)

    __ror__ = __or__

    def __xor__(self, o):
        return self._bin(o, lambda a, b: a ^ b, max)

    def __lshift__(self, k):
        if not isinstance(k, int):
            raise Unsupported("symbolic shift amount")
        return SymInt(z3.Concat(self.t, z3.BitVecVal(0, k))) if k else self

    def __rshift__(self, k):
        if not isinstance(k, int):
            raise Unsupported("symbolic shift amount")
        if k == 0:
            return self
        if k >= self.w:
            return SymInt(z3.Extract(self.w - 1, self.w - 1, self.t))  # 0 or -1
        return SymInt(z3.Extract(self.w - 1, k, self.t))

    def __neg__(self):
        return SymInt.lift(0) - self

    def _cmp(self, o, f):
        if isinstance(o, (float, SymFloat)):
            return NotImplemented
        o = SymInt.lift(o)
        if o is None:
            return NotImplemented
        w = max(self.w, o.w)
        return SymBool(f(self.ext(w), o.ext(w)))

    def __eq__(self, o):
        if o is None:
            return False
        return self._cmp(o, lambda a, b: a == b)

    def __ne__(self, o):
        if o is None:
            return True
        return self._cmp(o, lambda a, b: a != b)

    def __lt__(self, o):
        return self._cmp(o, lambda a, b: a < b)

    def __le__(self, o):
        return self._cmp(o, lambda a, b: a <= b)

    def __gt__(self, o):
        return self._cmp(o, lambda a, b: a > b)

    def __ge__(self, o):
        return self._cmp(o, lambda a, b: a >= b)

    def __hash__(self):
        raise Unsupported("hash of symbolic int")

    def __index__(self):
        raise Unsupported("index of symbolic int")

    def __bool__(self):
        return bool(self != 0)


F64 = z3.Float64()
RNE = z3.RNE()


class SymFloat:
    def __init__(self, t):
        self.t = t

    @staticmethod
    def from_int(i):
        return SymFloat(z3.fpSignedToFP(RNE, i.t, F64))

    @staticmethod
    def lift(x):
        if isinstance(x, SymFloat):
            return x
        if isinstance(x, SymInt):
            return SymFloat.from_int(x)
        if isinstance(x, (int, float)):
            return SymFloat(z3.FPVal(float(x), F64))
        return None

    def __mul__(self, o):
        return SymFloat(z3.fpMul(RNE, self.t, SymFloat.lift(o).t))

    __rmul__ = __mul__

    def __truediv__(self, o):
        return SymFloat(z3.fpDiv(RNE, self.t, SymFloat.lift(o).t))

    def __lt__(self, o):
        return SymBool(z3.fpLT(self.t, SymFloat.lift(o).t))

    def __gt__(self, o):
        return SymBool(z3.fpGT(self.t, SymFloat.lift(o).t))


SymInt.__imul__ = SymInt.__mul__


# --------------------------------------------------------------------------- loader
class Rewriter(ast.NodeTransformer):
    def visit_Compare(self, node):
        self.generic_visit(node)
        if len(node.ops) == 1 and isinstance(node.ops[0], (ast.Is, ast.IsNot)):
            fn = "_sx_is" if isinstance(node.ops[0], ast.Is) else "_sx_is_not"
            return ast.copy_location(
                ast.Call(ast.Name(fn, ast.Load()), [node.left, node.comparators[0]], []), node)
        return node

    def visit_Expr(self, node):
        # drop logging calls
        v = node.value
        if isinstance(v, ast.Call) and isinstance(v.func, ast.Attribute) and v.func.attr in (
                "debug", "info", "warning", "error") and "logger" in ast.unparse(v.func.value):
            return ast.copy_location(ast.Pass(), node)
        return self.generic_visit(node)


def _sx_is(a, b):
    return a is b


def _sx_is_not(a, b):
    return a is not b


def load_instrumented(modname, path, package, extra_globals=None):
    src = open(path).read()
    tree = Rewriter().visit(ast.parse(src, path))
    ast.fix_missing_locations(tree)
    mod = types.ModuleType(modname)
    mod.__file__ = path
    mod.__package__ = package
    mod.__dict__["_sx_is"] = _sx_is
    mod.__dict__["_sx_is_not"] = _sx_is_not
    if extra_globals:
        mod.__dict__.update(extra_globals)
    sys.modules[modname] = mod
    exec(compile(tree, path, "exec"), mod.__dict__)
    return mod


# --------------------------------------------------------------------------- optional + merge
class SymOpt:
    """value that is None when `none` holds, else `inner`"""

    def __init__(self, none, inner):
        self.none = none
        self.inner = inner

    def _force(self):
        if EX.branch(self.none):
            raise TypeError("operation on None")
        return self.inner

    def __mul__(self, o):
        return self._force() * o

    def __truediv__(self, o):
        return self._force() / o

    def __lt__(self, o):
        return self._force() < o

    def __gt__(self, o):
        return self._force() > o


def _sx_is(a, b):  # noqa: F811
    if b is None and isinstance(a, SymOpt):
        return SymBool(a.none)
    if b is None and isinstance(a, (SymInt, SymFloat)):
        return False
    return a is b


def _sx_is_not(a, b):  # noqa: F811
    if b is None and isinstance(a, SymOpt):
        return SymBool(z3.Not(a.none))
    if b is None and isinstance(a, (SymInt, SymFloat)):
        return True
    return a is not b


def _ite_val(c, a, b):
    if a is None:
        return b
    if b is None:
        return a
    if isinstance(a, SymFloat) or isinstance(b, SymFloat) or isinstance(a, float) or isinstance(b, float):
        a, b = SymFloat.lift(a), SymFloat.lift(b)
        return SymFloat(z3.If(c, a.t, b.t))
    a, b = SymInt.lift(a), SymInt.lift(b)
    w = max(a.w, b.w)
    return SymInt(z3.If(c, a.ext(w), b.ext(w)))


def summarize(fn):
    """explore fn's own paths and merge them into one guarded value (state merging at a pure kernel)"""
    def wrapper(*args):
        if not any(isinstance(a, (SymInt, SymFloat, SymOpt)) for a in args):
            return fn(*args)
        global EX
        outer = EX
        paths, _ = with_explorer(lambda: fn(*args))
        EX = outer
        raise_c = z3.BoolVal(False)
        none_c = z3.BoolVal(False)
        val = None
        exc = None
        for pc, kind, v in paths:
            g = z3.And(*pc) if pc else z3.BoolVal(True)
            if kind == "return":
                v = v[0]
            if kind == "raise":
                raise_c = z3.Or(raise_c, g)
                exc = v
            elif v is None:
                none_c = z3.Or(none_c, g)
            else:
                val = v if val is None else _ite_val(g, v, val)
        if exc is not None:
            if DEFER_RAISE:
                outer.deferred.append((z3.simplify(raise_c), exc))
            elif bool(SymBool(raise_c)):
                raise exc
        none_c = z3.simplify(none_c)
        if z3.is_false(none_c):
            return val
        if val is None:
            return None
        return SymOpt(none_c, val)
    wrapper.__wrapped__ = fn
    return wrapper


class SymLookup:
    def __init__(self, table, key):
        self.table = table
        self.key = key


class SymTable(dict):
    def get(self, k, d=None):
        if isinstance(k, SymInt):
            return SymLookup(self, k)
        return dict.get(self, k, d)


# --------------------------------------------------------------------------- bytes + concretisation
def _feas(si, lo, hi):
    EX.solver.push()
    for p in EX.pc:
        if not has_fp(p):
            EX.solver.add(p)
    w = si.w + 1
    EX.solver.add(si.ext(w) >= lo, si.ext(w) <= hi)
    r = EX.solver.check()
    EX.solver.pop()
    return r == z3.sat


def concretize(si):
    """fork over every feasible concrete value of a symbolic int, in ascending order (canonical, so
    that replay is deterministic): binary search for the least feasible value under the path condition"""
    if si.w > 13:
        raise Unsupported("concretisation of a wide symbolic int (%d bits)" % si.w)
    while True:
        lo, hi = -(1 << (si.w - 1)), (1 << (si.w - 1)) - 1
        if not _feas(si, lo, hi):
            raise Unsupported("concretize exhausted")
        while lo < hi:
            mid = (lo + hi) // 2
            if _feas(si, lo, mid):
                hi = mid
            else:
                lo = mid + 1
        if bool(si == lo):
            return lo


SymInt.__hash__ = lambda self: hash(concretize(self))
SymInt.__index__ = lambda self: concretize(self)


class SymBytes:
    def __init__(self, items):
        self.items = list(items)

    def __len__(self):
        return len(self.items)

    def __getitem__(self, i):
        if isinstance(i, slice):
            return SymBytes(self.items[i])
        return self.items[i]

    def __iter__(self):
        return iter(self.items)

    def __add__(self, o):
        return SymBytes(self.items + list(o))

    def hex(self):
        return "<sym>"


def sx_bytes(x=b""):
    x = list(x) if not isinstance(x, (bytes, SymBytes)) else x
    if isinstance(x, SymBytes):
        return x
    if isinstance(x, list) and any(isinstance(e, SymInt) for e in x):
        return SymBytes(x)
    return builtins.bytes(x)


class _IntNS:
    def __call__(self, *a):
        return builtins.int(*a)

    @staticmethod
    def from_bytes(b, order="big"):
        if not isinstance(b, SymBytes):
            return builtins.int.from_bytes(b, order)
        items = b.items if order == "big" else b.items[::-1]
        if not items:
            return 0
        parts = [(SymInt.lift(e).ext(9) if True else e) for e in items]
        return SymInt(z3.Concat(z3.BitVecVal(0, 1), *[z3.Extract(7, 0, p) for p in parts])) if len(parts) > 0 else 0


sx_int = _IntNS()
