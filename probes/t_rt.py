"""probe: decode -> encode round trip of a real generated pair (C02) with exact-FP SymFloat"""
import time, sys, json, z3, builtins, sx
from sx import *
import nmea2000.message, nmea2000.consts

def sx_round(x, n=None):
    if isinstance(x, SymFloat) and n is None:
        return SymInt(z3.fpToSBV(RNE, x.t, z3.BitVecSort(80)))
    return builtins.round(x) if n is None else builtins.round(x, n)
class _Int:
    def __call__(self, x=0, *a):
        if isinstance(x, SymInt): return x
        if isinstance(x, SymFloat): return SymInt(z3.fpToSBV(z3.RTZ(), x.t, z3.BitVecSort(80)))
        return builtins.int(x, *a)
    from_bytes = staticmethod(builtins.int.from_bytes)
def sx_isinstance(x, t):
    ts = t if isinstance(t, tuple) else (t,)
    if isinstance(x, SymInt): return builtins.int in ts or any(isinstance(q, _Int) for q in ts)
    if isinstance(x, SymFloat): return builtins.float in ts
    if isinstance(x, SymOpt): return sx_isinstance(x.inner, t)   # spike shortcut (None case handled by 'is None' first)
    ts = tuple(builtins.int if isinstance(q, _Int) else q for q in ts)
    return builtins.isinstance(x, ts)

utils = load_instrumented('nmea2000.utils', '/repo/nmea2000/utils.py', 'nmea2000')
utils.round = sx_round; utils.int = _Int()
pgns = load_instrumented('nmea2000.pgns', '/repo/nmea2000/pgns.py', 'nmea2000')
pgns.isinstance = sx_isinstance; pgns.int = utils.int
for k in list(pgns.master_dict): pgns.master_dict[k] = SymTable(pgns.master_dict[k])
for name in ('decode_number','decode_int','decode_time','decode_date','encode_number'):
    setattr(pgns, name, summarize(getattr(utils, name)))

class SF(SymFloat): pass
def _cmp(op):
    def f(self, o):
        o = SymFloat.lift(o); return SymBool(op(self.t, o.t))
    return f
SymFloat.__le__ = _cmp(z3.fpLEQ); SymFloat.__ge__ = _cmp(z3.fpGEQ)

data = z3.BitVec('data', 64)
def run():
    m = pgns.decode_pgn_127250(SymInt(z3.ZeroExt(1, data)))
    b = pgns.encode_pgn_127250(m)
    return m, b
# to_bytes on SymInt
def to_bytes(self, n, byteorder='little'):
    t = self.ext(8*n+1) if self.w < 8*n+1 else z3.Extract(8*n, 0, self.t)
    return ('BYTES', z3.Extract(8*n-1, 0, t), SymBool(z3.Or(self.ext(max(self.w,8*n+2)) < 0, self.ext(max(self.w, 8*n+2)) >= (1 << (8*n)))))
SymInt.to_bytes = to_bytes
t0=time.time()
paths, ex = with_explorer(run)
print('paths', len(paths), 'time', round(time.time()-t0,2))
for pc, kind, v in paths:
    if kind == 'raise':
        import traceback; traceback.print_exception(v); continue
    (m, b), deferred = v
    print('deferred raise guards:', len(deferred), 'pc:', [str(z3.simplify(p))[:100] for p in pc])
    _, out, overflow = b
    dec_raise = z3.Or(*[c for c,_ in deferred])
    enc_raise = z3.Or(*[c for c,_ in deferred[4:]]) if len(deferred) > 4 else z3.BoolVal(False)
    for f, (off, bl) in zip(m.fields, [(0,8),(8,16),(24,16),(40,16),(56,2),(58,6)]):
        s = z3.Solver(); s.set('timeout', 120000)
        # field-local: only this field's own decode guard
        s.add(z3.Extract(off+bl-1, off, out) != z3.Extract(off+bl-1, off, data))
        s.add(z3.Not(dec_raise)); s.add(*pc)
        t=time.time(); r=s.check()
        print(f'  field {f.id:12s} bits differ? {r}', round(time.time()-t,2), (hex(s.model()[data].as_long()) if r==z3.sat else ''))
