"""probe (C20): one step of the real WaveShare _receive_impl from an arbitrary symbolic buffer"""
import time, z3, sx, asyncio
from sx import *
import nmea2000.message, nmea2000.consts, nmea2000.utils, nmea2000.pgns, nmea2000.decoder, nmea2000.encoder
io = load_instrumented('nmea2000.ioclient_sx', '/repo/nmea2000/ioclient.py', 'nmea2000')

class SymBuf:
    """bytearray model: concrete length, symbolic content"""
    def __init__(self, items): self.items = list(items)
    def __len__(self): return len(self.items)
    def extend(self, other): self.items.extend(other.items if isinstance(other, SymBuf) else list(other))
    def hex(self): return '<sym>'
    def find(self, pat):
        assert pat == b"\xaa\x55"
        res = SymInt.lift(-1)
        for i in range(len(self.items) - 2, -1, -1):
            hit = z3.And(self.items[i].t == 0xAA, self.items[i+1].t == 0x55)
            res = SymInt(z3.If(hit, SymInt.lift(i).ext(12), res.ext(12)))
        return res
    def __getitem__(self, s):
        if isinstance(s, slice):
            a = s.start; b = s.stop
            if isinstance(a, SymInt): a = sx.concretize(a)
            if isinstance(b, SymInt): b = sx.concretize(b)
            return SymBuf(self.items[a:b])
        return self.items[s]

def byte(name): return SymInt(z3.ZeroExt(1, z3.BitVec(name, 8)))
class Cli(io.WaveShareNmea2000Gateway):
    def __init__(self): pass
def step(L, n):
    delivered = []
    def run():
        c = Cli()
        c._buffer = SymBuf([byte(f'b{i}') for i in range(L)])
        chunk = SymBuf([byte(f'd{i}') for i in range(n)])
        class R:
            async def read(self, k): return chunk
        class Q:
            async def put(self, m): delivered.append(m)
        class Dec:
            def decode_usb(self, packet): return None      # recorder stub: content decisions belong to obligation (2)
        c.reader = R(); c.queue = Q(); c.decoder = Dec(); c.logger = None
        co = c._receive_impl()
        try: co.send(None)
        except StopIteration: pass
        return len(c._buffer)
    return with_explorer(run)
t0 = time.time(); worst = 0; npaths = 0
for L, n in [(0, 20), (19, 1), (5, 25), (0, 45), (30, 30)]:
    t = time.time()
    paths, ex = step(L, n)
    post = [v[0] if kind == 'return' else repr(v) for pc, kind, v in paths]
    bad = [p for p in post if not isinstance(p, int)]
    mx = max(p for p in post if isinstance(p, int))
    print(f'L={L:3d} n={n:3d}: paths {len(paths):5d}  max post-length {mx}  errors {len(bad)}  time {time.time()-t:.2f}s')
    if bad: print('   ', bad[:2])
