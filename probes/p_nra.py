import z3, time
from fractions import Fraction
def q(bl):
    raw=z3.Int('raw'); e1,e2=z3.Reals('e1 e2')
    u=z3.Q(1,2**53)
    s=z3.Solver()
    s.add(raw>=-(2**bl), raw<=2**bl)
    for e in (e1,e2): s.add(e>=-u, e<=u)
    d=z3.ToReal(raw)*(1+e1)*(1+e2)
    diff=d-z3.ToReal(raw)
    s.add(z3.Or(diff>=z3.Q(1,2), diff<=-z3.Q(1,2)))
    t=time.time(); r=s.check(); print(bl, r, round(time.time()-t,3), s.model() if r==z3.sat else '')
for bl in (16,32,48,50,51,52,53): q(bl)
