"""probe: 'layer 2' rounding-error-model floats through the REAL decode_number / encode_number"""
import time, z3, builtins, sx
from sx import *
from fractions import Fraction

U = z3.Q(1, 2**53)
class SymReal:
    """binary64 value abstracted as exact*(1+e), |e|<=2^-53 per operation (standard model)"""
    cnt = [0]
    def __init__(self, t): self.t = t
    @staticmethod
    def lift(x):
        if isinstance(x, SymReal): return x
        if isinstance(x, SymInt): return SymReal(z3.ToReal(z3.BV2Int(x.t, is_signed=True)))   # exact below 2^53 (asserted by harness)
        if isinstance(x, bool): x = int(x)
        if isinstance(x, int): return SymReal(z3.RealVal(x))
        if isinstance(x, float):
            f = Fraction(x); return SymReal(z3.Q(f.numerator, f.denominator))    # exact rational of the binary64 literal
        raise Unsupported(type(x))
    def _rnd(self, exact):
        SymReal.cnt[0] += 1
        e = z3.Real(f'e{SymReal.cnt[0]}')
        sx.EX.assume(z3.And(e >= -U, e <= U))
        return SymReal(exact * (1 + e))
    def __mul__(self, o): return self._rnd(self.t * SymReal.lift(o).t)
    __rmul__ = __mul__
    def __truediv__(self, o): return self._rnd(self.t / SymReal.lift(o).t)
    def __lt__(self, o): return SymBool(self.t < SymReal.lift(o).t)
    def __gt__(self, o): return SymBool(self.t > SymReal.lift(o).t)
def assume(self, c): self.pc.append(c); self.assumptions = getattr(self, 'assumptions', []) + [c]
sx.Explorer.assume = assume

def sx_round(x, n=None):
    if isinstance(x, SymReal) and n is None:
        SymReal.cnt[0] += 1
        k = z3.Int(f'r{SymReal.cnt[0]}')
        sx.EX.assume(z3.And(z3.ToReal(k) - z3.Q(1,2) <= x.t, x.t <= z3.ToReal(k) + z3.Q(1,2)))
        return SymZ(k)
    return builtins.round(x) if n is None else builtins.round(x, n)
class SymZ:
    """integer as z3 Int (layer-2 side)"""
    def __init__(self, t): self.t = t
    def _c(self, o): return o.t if isinstance(o, SymZ) else z3.IntVal(o)
    def __le__(self, o): return SymBool(self.t <= self._c(o))
    def __ge__(self, o): return SymBool(self.t >= self._c(o))
    def __lt__(self, o): return SymBool(self.t < self._c(o))
    def __gt__(self, o): return SymBool(self.t > self._c(o))
    def __add__(self, o): return SymZ(self.t + self._c(o))
    __radd__ = __add__
class _Int:
    def __call__(self, x=0, *a):
        if isinstance(x, (SymInt, SymZ)): return x
        return builtins.int(x, *a)
utils = load_instrumented('nmea2000.utils', '/repo/nmea2000/utils.py', 'nmea2000')
utils.round = sx_round; utils.int = _Int()
# int * float in layer 2 -> SymReal
SymInt.__mul__ = (lambda old: (lambda self, o: SymReal.lift(self) * o if isinstance(o, float) else old(self, o)))(SymInt.__mul__)
SymInt.__imul__ = SymInt.__mul__

def check(bl, signed, res, mn, mx):
    rawbv = z3.BitVec('raw', bl)
    def run():
        data = SymInt(z3.ZeroExt(1, rawbv))
        v = utils.decode_number(data, 0, bl, signed, res, mn, mx)
        if v is None: return ('NA', utils.encode_number(None, bl, signed, res))
        return ('VAL', utils.encode_number(v, bl, signed, res))
    t0 = time.time()
    paths, ex = with_explorer(run)
    nviol = 0; nq = 0
    for pc, kind, v in paths:
        if kind == 'raise': continue            # decoder rejected or encoder rejected -> inspected separately
        (tag, out), _ = v
        s = z3.Solver(); s.add(*pc)
        raw_int = z3.BV2Int(rawbv, is_signed=False)
        if isinstance(out, SymZ): s.add(out.t != (raw_int if not signed else z3.BV2Int(rawbv, is_signed=True)) % (1<<bl) if False else out.t != raw_int)
        elif isinstance(out, SymInt): s.add(z3.BV2Int(out.t, is_signed=True) != raw_int)
        else: s.add(z3.IntVal(out) != raw_int)
        nq += 1; r = s.check()
        if r != z3.unsat: nviol += 1; print('   ', tag, r, s.model() if r == z3.sat else '')
    enc_raise = [str(v)[:50] for pc, kind, v in paths if kind == 'raise']
    print((bl, signed, res), 'paths', len(paths), 'obligations', nq, 'not-unsat', nviol, 'raise-paths', len(enc_raise), 'time', round(time.time()-t0, 2))
check(16, False, 0.01, 0, 655.32)
check(16, False, 0.1, 0, 6553.2)
check(32, False, 0.01, 0, 42949672.92)
check(32, False, 1e-07, 0, 429.4967292)
