import time, sys, json, z3, sx
from sx import *
import nmea2000.message, nmea2000.consts, nmea2000.utils, nmea2000.pgns
dec = load_instrumented('nmea2000.decoder_sx', '/repo/nmea2000/decoder.py', 'nmea2000'); dec.bytes = sx_bytes; dec.int = sx_int
D = dec.NMEA2000Decoder
def symframe(name, n=8):
    return SymBytes([SymInt(z3.ZeroExt(1, z3.BitVec(f'{name}_{i}', 8))) for i in range(n)])
out = []
def run():
    d = D()
    d._call_decode_function = lambda pgn, prio, src, dest, ts, data, iso, raw: ('DELIVER', data)
    res = []
    # frames arrive as reversed can data (as the front-ends pass them)
    for k in range(NF):
        f = symframe(f'f{k}')
        res.append(d._decode_fast_message(126720, 7, 1, 255, None, f[::-1], None, b''))
    return res, d
for NF in (1,2,3):
    t0=time.time()
    paths, ex = with_explorer(run)
    kinds = {}
    for pc, kind, v in paths:
        key = kind if kind=='raise' else tuple('D' if r else '-' for r in v[0][0])
        kinds[key] = kinds.get(key,0)+1
    print('frames', NF, 'paths', len(paths), 'queries', ex.nqueries, 'time', round(time.time()-t0,2), kinds)
