import time, sys, json, z3, sx
from sx import *
import nmea2000.message, nmea2000.consts
utils = load_instrumented('nmea2000.utils', '/repo/nmea2000/utils.py', 'nmea2000')
pgns = load_instrumented('nmea2000.pgns', '/repo/nmea2000/pgns.py', 'nmea2000')
for k in list(pgns.master_dict): pgns.master_dict[k] = SymTable(pgns.master_dict[k])
for name in ('decode_number','decode_int','decode_time','decode_date'):
    setattr(pgns, name, summarize(getattr(utils, name)))
db = json.load(open('/repo/canboat.json'))
P = [p for p in db['PGNs'] if p['PGN']==127250][0]
W = P['Length']*8
data = z3.BitVec('data', W)
def run():
    return pgns.decode_pgn_127250(SymInt(z3.ZeroExt(1, data)))
t0=time.time()
paths, ex = with_explorer(run)
print('paths', len(paths), 'queries', ex.nqueries, 'time', round(time.time()-t0,3))
print(paths[0][1], repr(paths[0][2])); import traceback; traceback.print_exception(paths[0][2]) if paths[0][1]=="raise" else None
(pc, kind, (msg, deferred)), = paths
print(len(deferred), 'deferred raise conditions')
# per-field check against the database: value == fp(raw)*res, none iff raw==sentinel
for f, spec in zip(msg.fields, P['Fields']):
    if spec['FieldType']!='NUMBER': continue
    off, bl, signed, res = spec['BitOffset'], spec['BitLength'], spec.get('Signed',False), spec['Resolution']
    raw = z3.Extract(off+bl-1, off, data)
    sent = (1<<(bl-1))-1 if signed else (1<<bl)-1
    v = f.value
    s = z3.Solver()
    t=time.time()
    spec_none = raw == sent
    impl_none = v.none if isinstance(v, SymOpt) else z3.BoolVal(False)
    inner = v.inner if isinstance(v, SymOpt) else v
    ext = z3.SignExt(1, raw) if signed else z3.ZeroExt(1, raw)
    if isinstance(res, float):
        spec_val = z3.fpMul(RNE, z3.fpSignedToFP(RNE, ext, F64), z3.FPVal(res, F64))
        neq = z3.Not(z3.fpEQ(inner.t, spec_val))
    else:
        w=max(inner.w, ext.size()); neq = inner.ext(w) != z3.SignExt(w-ext.size(), ext)*res
    s.add(z3.Or(impl_none != spec_none, z3.And(z3.Not(spec_none), neq)))
    print(f.id, s.check(), round(time.time()-t,3))
