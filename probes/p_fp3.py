import z3, time, sys, subprocess, cvc5
def mk(bl, signed, res, trunc=False):
    raw = z3.BitVec('raw', bl)
    F = z3.Float64(); rm = z3.RNE()
    W = bl+2
    ext = z3.SignExt(W-bl, raw) if signed else z3.ZeroExt(W-bl, raw)
    f = z3.fpSignedToFP(rm, ext, F)
    v = z3.fpMul(rm, f, z3.FPVal(res, F))
    d = z3.fpDiv(rm, v, z3.FPVal(res, F))
    back = z3.fpToSBV(z3.RTZ() if trunc else rm, d, z3.BitVecSort(W))
    s = z3.Solver()
    s.add(raw != ((1<<(bl-1))-1 if signed else (1<<bl)-1))
    s.add(back != ext)
    return s
def run_cvc5(smt, tmo):
    open('q.smt2','w').write("(set-logic QF_BVFP)\n"+smt+"\n(check-sat)\n")
    t=time.time()
    try:
        out=subprocess.run([sys.executable,'-c','''
import cvc5,sys
from cvc5 import Kind
s=cvc5.Solver(); 
p=cvc5.InputParser(s); p.setFileInput(cvc5.InputLanguage.SMT_LIB_2_6,"q.smt2"); sm=p.getSymbolManager()
while True:
    c=p.nextCommand()
    if c.isNull(): break
    r=c.invoke(s,sm)
    if str(r).strip(): print(r)
'''],capture_output=True,text=True,timeout=tmo).stdout.strip()
    except subprocess.TimeoutExpired: out='timeout'
    return out, round(time.time()-t,2)
for args in [(16,False,0.01),(24,True,0.01),(32,False,0.01),(32,True,1e-7)]:
    s=mk(*args)
    print(args,'cvc5',run_cvc5(s.sexpr(),300)); sys.stdout.flush()
