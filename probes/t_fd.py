import time, z3, builtins, sx
from sx import *

class FDSym:
    """finite-domain symbolic value: z3 index into a tuple of concrete python objects"""
    def __init__(self, idx, table):
        self.idx = idx; self.table = tuple(table)
    def _sel(self, pred):
        return SymBool(z3.Or(*[self.idx == i for i, v in enumerate(self.table) if pred(v)]) if any(pred(v) for v in self.table) else z3.BoolVal(False))
    def map(self, f):
        out = []
        for v in self.table:
            try: out.append(f(v))
            except Exception as e: out.append(('__poison__', e))
        return FDSym(self.idx, out)
    def __getattr__(self, name):
        if name.startswith('__'): raise AttributeError(name)
        return lambda *a: self.map(lambda v: getattr(v, name)(*a))
    def __eq__(self, o):
        if isinstance(o, FDSym):
            conds = [z3.And(self.idx == i, o.idx == j) for i, a in enumerate(self.table) for j, b in enumerate(o.table) if type(a) == type(b) and a == b]
            return SymBool(z3.Or(*conds) if conds else z3.BoolVal(False))
        return self._sel(lambda v: type(v) == type(o) and v == o)
    def __ne__(self, o):
        return SymBool(z3.Not((self == o).t))
    def __hash__(self):
        return hash(self.pin())
    def pin(self):
        for i, v in enumerate(self.table):
            if sx.EX.branch(self.idx == i):
                return v
        raise Unsupported('FDSym exhausted')

def sx_isinstance(x, t):
    if isinstance(x, FDSym):
        return x._sel(lambda v: builtins.isinstance(v, t))
    return builtins.isinstance(x, t)

import nmea2000.message, nmea2000.consts, nmea2000.utils, nmea2000.pgns
dec = load_instrumented('nmea2000.decoder_sx', '/repo/nmea2000/decoder.py', 'nmea2000'); dec.isinstance = sx_isinstance
D = dec.NMEA2000Decoder
CAND = [60928, 65280, 127250, "isoAddressClaim", "furunoHeave", "FURUNOHEAVE", "vesselHeading", "nosuch"]
MSGS = {65280: "A000057.055 09FF7 0FF00 3F9FDCFFFFFFFFFF", 127250: "A000057.055 09FF2 1F112 00FFFFFFFFFFFFFF"}
IDS = {65280: 'furunoheave', 127250: 'vesselheading'}
def run():
    n = NLIST
    idxs = [z3.Int(f'k{i}') for i in range(n)]
    lst = [FDSym(k, CAND) for k in idxs]
    for k in idxs:
        sx.EX.pc_assume(z3.And(k >= 0, k < len(CAND)))
    mode_inc = bool(SymBool(z3.Bool('include')))
    d = D(include_pgns=lst) if mode_inc else D(exclude_pgns=lst)
    ref = D()
    out = []
    for pgn, line in MSGS.items():
        got = d.decode_actisense_string(line) is not None
        out.append((pgn, got))
    return mode_inc, idxs, out
# tiny extension: assumptions
def pc_assume(self, c):
    if self.pos == 0 or True:
        self.pc.append(c)
sx.Explorer.pc_assume = pc_assume
for NLIST in (1, 2):
    t=time.time()
    paths, ex = with_explorer(run)
    bad = 0; total = 0
    s = z3.Solver()
    for pc, kind, v in paths:
        if kind == 'raise': print('raise', repr(v)); continue
        (mode_inc, idxs, out), _ = v
        for pgn, got in out:
            # spec predicate over the index variables
            def listed(k): return z3.Or(*[k == i for i, c in enumerate(CAND) if c == pgn or (isinstance(c, str) and c.lower() == IDS[pgn])])
            anyl = z3.Or(*[listed(k) for k in idxs])
            permitted = anyl if mode_inc else z3.Not(anyl)
            s.push(); s.add(*pc); s.add(permitted != got)
            total += 1
            if s.check() == z3.sat:
                bad += 1
                if bad <= 3:
                    m = s.model(); print('  CEX', 'include' if mode_inc else 'exclude', [CAND[m.eval(k, model_completion=True).as_long()] for k in idxs], 'pgn', pgn, 'returned', got)
            s.pop()
    print('list len', NLIST, 'paths', len(paths), 'obligations', total, 'violated', bad, 'time', round(time.time()-t,2))
