import time, sys, json, z3, sx
from sx import *
t0=time.time()
import nmea2000.message, nmea2000.consts
utils = load_instrumented('nmea2000.utils', '/repo/nmea2000/utils.py', 'nmea2000')
print('utils loaded', round(time.time()-t0,2))
t0=time.time()
pgns = load_instrumented('nmea2000.pgns', '/repo/nmea2000/pgns.py', 'nmea2000')
print('pgns loaded', round(time.time()-t0,2))
for k in list(pgns.master_dict): pgns.master_dict[k] = SymTable(pgns.master_dict[k])
for name in ('decode_number','decode_int','decode_time','decode_date'):
    setattr(pgns, name, summarize(getattr(utils, name)))

db = json.load(open('/repo/canboat.json'))
P = [p for p in db['PGNs'] if p['PGN']==127250][0]
W = P['Length']*8
data = z3.BitVec('data', W)
def run():
    return pgns.decode_pgn_127250(SymInt(z3.ZeroExt(1, data)))
t0=time.time()
paths, ex = with_explorer(run)
print('paths', len(paths), 'queries', ex.nqueries, 'time', round(time.time()-t0,2))
for pc, kind, v in paths:
    if kind=='raise': print('  raise', v, len(pc)); continue
    print('  return; fields:')
    for f in v.fields:
        val = f.value
        d = val.inner.t if isinstance(val, SymOpt) else (val.t if hasattr(val,'t') else val)
        print('    ', f.id, type(val).__name__, str(z3.simplify(d))[:150] if hasattr(d,'sexpr') else d)
