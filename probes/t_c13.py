"""probe (C13): explorer-driven fault schedules on the real clients, virtual-time loop.
Each connection attempt's behaviour is a solver-chosen finite-domain variable."""
import asyncio, selectors, time, ast, sys, z3, logging
logging.disable(logging.CRITICAL)
import sx
from sx import load_instrumented, Rewriter, with_explorer, SymBool

class Livelock(BaseException): pass
FUEL = [0]; FLAGS = {}
def _sx_tick():
    FUEL[0] += 1
    if FUEL[0] > 20000:
        FLAGS['livelock'] = True
        raise Livelock()
class R2(Rewriter):
    def visit_While(self, node):
        self.generic_visit(node)
        node.body.insert(0, ast.Expr(ast.Call(ast.Name('_sx_tick', ast.Load()), [], [])))
        return node
    def visit_Expr(self, node):      # keep logging dropped
        return Rewriter.visit_Expr(self, node)
sx.Rewriter = R2
io = load_instrumented('nmea2000.ioclient_sx', '/repo/nmea2000/ioclient.py', 'nmea2000'); io._sx_tick = _sx_tick

class FakeSelector(selectors.BaseSelector):
    def __init__(self, ref): self.ref = ref; self._map = {}
    def register(self, f, e, d=None): k = selectors.SelectorKey(f, f if isinstance(f, int) else f.fileno(), e, d); self._map[k.fd] = k; return k
    def unregister(self, f): return self._map.pop(f if isinstance(f, int) else f.fileno())
    def select(self, timeout=None):
        FUEL[0] = 0
        if timeout is None: raise RuntimeError('deadlock')
        if timeout > 0: self.ref[0].vtime += timeout
        return []
    def get_map(self): return self._map
    def close(self): pass
class VLoop(asyncio.SelectorEventLoop):
    def __init__(self):
        self.vtime = 0.0; ref = [None]; super().__init__(FakeSelector(ref)); ref[0] = self
    def time(self): return self.vtime
class FakeWriter:
    def write(self, b): pass
    async def drain(self): pass
    def close(self): pass
    def get_extra_info(self, k): return None

KINDS = ['refuse', 'eof', 'reset', 'healthy']
PKT = {'ebyte': bytes.fromhex("881cff00093f9fdcffffffffff"), 'actisense': b"A000057.055 09FF7 0FF00 3F9FDCFFFFFFFFFF\r\n"}
def pick(name, n):
    v = z3.Int(name); sx.EX.pc.append(z3.And(v >= 0, v < n))
    for i in range(n - 1):
        if sx.EX.branch(v == i): return i
    return n - 1

def scenario(client_kind, max_attempts):
    def run():
        FLAGS.clear(); FUEL[0] = 0
        loop = VLoop(); asyncio.set_event_loop(loop)
        conns = []; got = []; states = []
        async def open_connection(host, port):
            i = len(conns)
            k = 'healthy' if i >= max_attempts - 1 else KINDS[pick(f'k{i}', 4)]
            conns.append((loop.time(), k))
            if k == 'refuse': raise ConnectionRefusedError()
            r = asyncio.StreamReader()
            if k == 'eof': r.feed_eof()
            elif k == 'reset': r.set_exception(ConnectionResetError())
            else: r.feed_data(PKT[client_kind])
            return r, FakeWriter()
        io.asyncio.open_connection = open_connection
        async def main():
            c = io.EByteNmea2000Gateway('h', 1) if client_kind == 'ebyte' else io.ActisenseNmea2000Gateway('h', 1)
            async def rx(m): got.append(m.PGN)
            async def st(s): states.append(s.name)
            c.set_receive_callback(rx); c.set_status_callback(st)
            await c.connect()
            await asyncio.sleep(40)
            final = c.state.name
            await c.close()
            return final
        try:
            final = loop.run_until_complete(main())
        finally:
            for t in asyncio.all_tasks(loop): t.cancel()
            loop.close()
        return dict(conns=conns, got=got, states=states, final=final, livelock=FLAGS.get('livelock', False))
    t = time.time()
    paths, ex = with_explorer(run)
    viol = []
    for pc, kind, v in paths:
        if kind == 'raise': viol.append(('EXC', repr(v)[:80])); continue
        r = v[0]
        gaps = [b[0] - a[0] for a, b in zip(r['conns'], r['conns'][1:])]
        ok = (not r['livelock']) and r['final'] == 'CONNECTED' and r['got'] == [65280] and all(g > 0 for (a, g) in zip(r['conns'], gaps) if a[1] == 'refuse') and all(g2 >= g1 for (a, g1), (b, g2) in zip(zip(r['conns'], gaps), list(zip(r['conns'], gaps))[1:]) if a[1] == 'refuse' and b[1] == 'refuse')
        if not ok: viol.append(([k for _, k in r['conns']], r['states'], r['final'], 'LIVELOCK' if r['livelock'] else '', r['got']))
    print(f'{client_kind}: attempts<={max_attempts} paths {len(paths)} violations {len(viol)} time {time.time()-t:.2f}s')
    for x in viol[:3]: print('   ', x)
scenario('ebyte', 4)
scenario('actisense', 4)
