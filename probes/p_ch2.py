from nmea2000.utils import decode_number, encode_number
from nmea2000.encoder import NMEA2000Encoder
from nmea2000.decoder import NMEA2000Decoder
from typing import List, Optional

def rt_int(raw: int) -> bool:
    """
    pre: 0 <= raw < 65533
    post: _
    """
    v = decode_number(raw, 0, 16, False, 1, 0, 65532)
    return encode_number(v, 16, False, 1) == raw

def enc_bounds(value: int) -> int:
    """
    post: 0 <= _ < 256
    raises: ValueError
    """
    return encode_number(value, 8, False, 1)

def fast_frames(n: int, seq: int) -> bool:
    """
    pre: 0 <= n <= 223 and 0 <= seq < 8
    post: _
    """
    e = NMEA2000Encoder(); e.sequence_counter = seq
    frames = e._encode_fast_message(0, 0, 0, 0, bytes(n))
    return all(len(f) <= 8 for f in frames) and sum(len(f) for f in frames) == n + 1 + len(frames) and frames[0][1] == n
