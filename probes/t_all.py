"""probe: run EVERY generated decode_pgn_* through the spike executor; classify what is still missing"""
import time, sys, json, z3, collections, re, sx
from sx import *
import nmea2000.message, nmea2000.consts
t0 = time.time()
utils = load_instrumented('nmea2000.utils', '/repo/nmea2000/utils.py', 'nmea2000')
pgns = load_instrumented('nmea2000.pgns', '/repo/nmea2000/pgns.py', 'nmea2000')
for k in list(pgns.master_dict): pgns.master_dict[k] = SymTable(pgns.master_dict[k])
for name in ('decode_number', 'decode_int', 'decode_time', 'decode_date'):
    setattr(pgns, name, summarize(getattr(utils, name)))
print('load', round(time.time() - t0, 1), 's')
db = json.load(open('/repo/canboat.json'))
groups = collections.defaultdict(list)
for p in db['PGNs']: groups[p['PGN']].append(p)
res = collections.Counter(); why = collections.Counter(); nfields = 0; npaths = 0
t0 = time.time()
for pgn, defs in groups.items():
    multi = len(defs) > 1 and any('Match' in f for d in defs for f in d['Fields'])
    for d in defs:
        fn = getattr(pgns, f"decode_pgn_{pgn}_{d['Id']}" if multi else f"decode_pgn_{pgn}", None)
        if fn is None: res['missing'] += 1; continue
        W = (d.get('Length') or (223 if d['Type'] == 'Fast' else 8)) * 8 + 16
        data = z3.BitVec('p', W)
        try:
            cnt = [0]
            def guarded():
                cnt[0] += 1
                if cnt[0] > 64: raise Unsupported('path explosion (>64 paths)')
                return fn(SymInt(z3.ZeroExt(1, data)))
            paths, ex = with_explorer(guarded)
        except Unsupported as e:
            res['unsupported'] += 1; why['Unsupported: ' + str(e)[:50]] += 1; continue
        npaths += len(paths)
        kinds = [k for pc, k, v in paths]
        if kinds == ['return']:
            res['ok: 1 path'] += 1; nfields += len(paths[0][2][0].fields)
        elif all(k == 'return' for k in kinds):
            res['ok: %d paths' % len(kinds)] += 1
        else:
            res['python exception'] += 1
            e = [v for pc, k, v in paths if k == 'raise'][0]
            why[type(e).__name__ + ': ' + re.sub(r'\d+', 'N', str(e))[:70]] += 1
print('definitions', sum(res.values()), dict(res), 'fields in 1-path runs', nfields, 'paths', npaths, 'time', round(time.time() - t0, 1), 's')
for k, v in why.most_common(): print(f'  {v:4d}  {k}')
